package main

// C17: concurrent transactions are serialisable and observed in one order.
//  - the critical actions of OvsdbServer.Transact are read off the source
//    (go/ast) on every run and written as a Coq fact whose proof obligation is
//    checked with coqc;
//  - N client connections submit read-modify-write, increment, insert-if-absent
//    and reference-moving transactions concurrently to a real server, with
//    monitoring peers attached; every transaction also inserts a marker row so
//    that each monitor's notification sequence names the commit order.

import (
	"encoding/json"
	"fmt"
	"go/ast"
	"go/parser"
	"go/token"
	"os"
	"os/exec"
	"path/filepath"
	"strings"
	"sync"

	"github.com/ovn-org/libovsdb/ovsdb"

	"verifharness/dyn"
	"verifharness/emit"
	"verifharness/gen"
	"verifharness/val"
)

func init() { drivers["C17"] = driveC17 }

// extractTransactBody lists the critical actions of (*OvsdbServer).Transact in source order.
func extractTransactBody(repo string) ([]string, error) {
	fset := token.NewFileSet()
	f, err := parser.ParseFile(fset, filepath.Join(repo, "server", "server.go"), nil, 0)
	if err != nil {
		return nil, err
	}
	var body *ast.BlockStmt
	for _, d := range f.Decls {
		fd, ok := d.(*ast.FuncDecl)
		if ok && fd.Name.Name == "Transact" && fd.Recv != nil {
			body = fd.Body
		}
	}
	if body == nil {
		return nil, fmt.Errorf("OvsdbServer.Transact not found")
	}
	sel := func(e ast.Expr) string {
		var parts []string
		for {
			switch x := e.(type) {
			case *ast.SelectorExpr:
				parts = append([]string{x.Sel.Name}, parts...)
				e = x.X
				continue
			case *ast.Ident:
				parts = append([]string{x.Name}, parts...)
			}
			break
		}
		return strings.Join(parts, ".")
	}
	var acts []string
	deferredUnlock := false
	// cond: inside a branch, loop or function literal of the handler (the action may not happen on every path)
	var walk func(n ast.Node, async, deferred, cond bool)
	walk = func(n ast.Node, async, deferred, cond bool) {
		ast.Inspect(n, func(x ast.Node) bool {
			switch s := x.(type) {
			case *ast.GoStmt:
				walk(s.Call, true, deferred, cond)
				return false
			case *ast.DeferStmt:
				if fl, ok := s.Call.Fun.(*ast.FuncLit); ok {
					walk(fl.Body, async, true, cond) // defer func() { ... }(): runs on every path, like a deferred call
					return false
				}
				walk(s.Call, async, true, cond)
				return false
			case *ast.IfStmt:
				if s.Init != nil {
					walk(s.Init, async, deferred, cond)
				}
				walk(s.Cond, async, deferred, cond)
				walk(s.Body, async, deferred, true)
				if s.Else != nil {
					walk(s.Else, async, deferred, true)
				}
				return false
			case *ast.ForStmt:
				walk(s.Body, async, deferred, true)
				return false
			case *ast.RangeStmt:
				walk(s.Body, async, deferred, true)
				return false
			case *ast.SwitchStmt:
				walk(s.Body, async, deferred, true)
				return false
			case *ast.TypeSwitchStmt:
				walk(s.Body, async, deferred, true)
				return false
			case *ast.SelectStmt:
				walk(s.Body, async, deferred, true)
				return false
			case *ast.FuncLit:
				walk(s.Body, async, deferred, true)
				return false
			case *ast.CallExpr:
				name := sel(s.Fun)
				suffix := ""
				if async {
					suffix = "Async"
				}
				if strings.HasPrefix(name, "o.txnMutex.") && (cond || (name != "o.txnMutex.Lock" && name != "o.txnMutex.Unlock")) {
					// a shared, try or conditional use of the transaction lock excludes nobody
					acts = append(acts, "AWeakLock"+suffix)
					return true
				}
				switch name {
				case "o.txnMutex.Lock":
					acts = append(acts, "ALock"+suffix)
				case "o.txnMutex.Unlock":
					if deferred {
						deferredUnlock = true
					} else {
						acts = append(acts, "AUnlock"+suffix)
					}
				case "o.transact":
					acts = append(acts, "AExec"+suffix)
				case "o.processMonitors":
					acts = append(acts, "ANotify"+suffix)
				case "o.db.Commit":
					acts = append(acts, "ACommit"+suffix)
				}
			}
			return true
		})
	}
	walk(body, false, false, false)
	if deferredUnlock {
		acts = append(acts, "AUnlock")
	}
	return acts, nil
}

// extractMonitorLocking reports, per monitor handler, whether it takes txnMutex and releases it by defer.
func extractMonitorLocking(repo string) (map[string]bool, error) {
	fset := token.NewFileSet()
	f, err := parser.ParseFile(fset, filepath.Join(repo, "server", "server.go"), nil, 0)
	if err != nil {
		return nil, err
	}
	out := map[string]bool{}
	for _, d := range f.Decls {
		fd, ok := d.(*ast.FuncDecl)
		if !ok || fd.Recv == nil || fd.Body == nil {
			continue
		}
		if fd.Name.Name != "Monitor" && fd.Name.Name != "MonitorCond" && fd.Name.Name != "MonitorCondSince" {
			continue
		}
		lock, unlock := false, false
		for _, st := range fd.Body.List {
			switch x := st.(type) {
			case *ast.ExprStmt:
				if c, ok := x.X.(*ast.CallExpr); ok {
					if se, ok := c.Fun.(*ast.SelectorExpr); ok && se.Sel.Name == "Lock" {
						if in, ok := se.X.(*ast.SelectorExpr); ok && in.Sel.Name == "txnMutex" {
							lock = true
						}
					}
				}
			case *ast.DeferStmt:
				if se, ok := x.Call.Fun.(*ast.SelectorExpr); ok && se.Sel.Name == "Unlock" {
					if in, ok := se.X.(*ast.SelectorExpr); ok && in.Sel.Name == "txnMutex" {
						unlock = lock
					}
				}
			}
		}
		out[fd.Name.Name] = lock && unlock
	}
	return out, nil
}

// extractLockMentions lists every mention of txnMutex in the non-test files of package server that is not one of the
// two statements of a handler's prologue (`o.txnMutex.Lock()` / `defer o.txnMutex.Unlock()` as top-level statements of
// Transact, Monitor, MonitorCond, MonitorCondSince) or the field's declaration: a release and re-acquisition from
// somewhere else (a callback, a helper, a function literal) takes the serial section apart without touching the
// handlers.
// extractNotifyCalls looks at every method called on an rpc2 client (a selector ending in "client" or a parameter of
// type *rpc2.Client) in server/monitor.go: Call is counted, anything else (CallWithContext, Go, Notify, ...) is listed.
func extractNotifyCalls(repo string) (other []string, calls int, err error) {
	fset := token.NewFileSet()
	f, err := parser.ParseFile(fset, filepath.Join(repo, "server", "monitor.go"), nil, 0)
	if err != nil {
		return nil, 0, err
	}
	ast.Inspect(f, func(n ast.Node) bool {
		call, ok := n.(*ast.CallExpr)
		if !ok {
			return true
		}
		se, ok := call.Fun.(*ast.SelectorExpr)
		if !ok {
			return true
		}
		recv := ""
		switch x := se.X.(type) {
		case *ast.SelectorExpr:
			recv = x.Sel.Name
		case *ast.Ident:
			recv = x.Name
		}
		if recv != "client" {
			return true
		}
		switch se.Sel.Name {
		case "Call":
			calls++
		default:
			other = append(other, fmt.Sprintf("%s at %s", se.Sel.Name, fset.Position(call.Pos())))
		}
		return true
	})
	return other, calls, nil
}

func extractLockMentions(repo string) ([]string, error) {
	fset := token.NewFileSet()
	files, err := filepath.Glob(filepath.Join(repo, "server", "*.go"))
	if err != nil {
		return nil, err
	}
	var stray []string
	for _, fn := range files {
		if strings.HasSuffix(fn, "_test.go") {
			continue
		}
		f, err := parser.ParseFile(fset, fn, nil, 0)
		if err != nil {
			return nil, err
		}
		allowed := map[ast.Node]bool{}
		for _, d := range f.Decls {
			fd, ok := d.(*ast.FuncDecl)
			if !ok || fd.Recv == nil || fd.Body == nil {
				continue
			}
			switch fd.Name.Name {
			case "Transact", "Monitor", "MonitorCond", "MonitorCondSince":
			default:
				continue
			}
			for _, st := range fd.Body.List {
				var call *ast.CallExpr
				switch x := st.(type) {
				case *ast.ExprStmt:
					call, _ = x.X.(*ast.CallExpr)
				case *ast.DeferStmt:
					call = x.Call
				}
				if call == nil {
					continue
				}
				if se, ok := call.Fun.(*ast.SelectorExpr); ok && (se.Sel.Name == "Lock" || se.Sel.Name == "Unlock") {
					if in, ok := se.X.(*ast.SelectorExpr); ok && in.Sel.Name == "txnMutex" {
						allowed[in] = true
					}
				}
			}
		}
		var enclosing string
		ast.Inspect(f, func(n ast.Node) bool {
			switch x := n.(type) {
			case *ast.FuncDecl:
				enclosing = x.Name.Name
			case *ast.SelectorExpr:
				if x.Sel.Name == "txnMutex" && !allowed[x] {
					stray = append(stray, fmt.Sprintf("%s:%d (in %s)", filepath.Base(fn), fset.Position(x.Pos()).Line, enclosing))
				}
			}
			return true
		})
	}
	return stray, nil
}

func c17Schema() dyn.Schema {
	return dyn.Schema{Name: "C17", Tables: []dyn.Table{
		{Name: "Ctr", IsRoot: true, Indexes: [][]string{{"name"}}, Cols: []val.Col{{Name: "name", K: 'a', KT: 's'}, {Name: "n", K: 'a', KT: 'i'}}},
		{Name: "U", IsRoot: true, Indexes: [][]string{{"name"}}, Cols: []val.Col{{Name: "name", K: 'a', KT: 's'}, {Name: "owner", K: 'a', KT: 'i'}}},
		{Name: "P", IsRoot: true, Cols: []val.Col{{Name: "name", K: 'a', KT: 's'}, {Name: "kids", K: 's', KT: 'u', Max: -1, RefTable: "K", RefType: "strong"}}},
		{Name: "K", Cols: []val.Col{{Name: "k", K: 'a', KT: 's'}}},
		{Name: "M", IsRoot: true, Cols: []val.Col{{Name: "c", K: 'a', KT: 'i'}}},
		// one row per transaction made of mutate operations only: the transaction marks itself by incrementing its row
		{Name: "L", IsRoot: true, Cols: []val.Col{{Name: "c", K: 'a', KT: 'i'}}},
	}}
}

func coqTxn(s *val.Syms, ops []TOp) string {
	var parts []string
	for _, o := range ops {
		parts = append(parts, o.coqNamed(s))
	}
	return "[" + strings.Join(parts, "; ") + "]"
}

func driveC17(o opts) error {
	quietStderr()
	g := gen.New(o.seed)
	w := emit.New("C17", o.out)
	w.ShardSize = 10
	ncases := 24
	if o.tier == "thorough" {
		ncases = 300
	}
	if o.n > 0 {
		ncases = o.n
	}
	// ---- fact obligation: the critical section of Transact
	repo := os.Getenv("VERIF_REPO")
	if repo == "" {
		repo = "/repo"
	}
	root := os.Getenv("VERIF_ROOT")
	if root == "" {
		root = "/verif"
	}
	acts, err := extractTransactBody(repo)
	fo := map[string]interface{}{"name": "body_serial extracted_body (server/server.go: Transact)", "ok": false}
	if err != nil {
		fo["detail"] = "extraction failed: " + err.Error()
	} else {
		src := "From LOV Require Import Srv.Serial.\nFrom Coq Require Import List.\nImport ListNotations.\n" +
			"(* generated from server/server.go on every run *)\n" +
			"Definition extracted_body : list act := [" + strings.Join(acts, "; ") + "].\n" +
			"Lemma extracted_body_is_serial : body_serial extracted_body = true.\nProof. reflexivity. Qed.\n"
		fp := filepath.Join(o.out, "facts_C17.v")
		_ = os.MkdirAll(o.out, 0o755)
		if err := os.WriteFile(fp, []byte(src), 0o644); err != nil {
			return err
		}
		cmd := exec.Command("coqc", "-Q", filepath.Join(root, "coq"), "LOV", "facts_C17.v")
		cmd.Dir = o.out
		outb, err := cmd.CombinedOutput()
		fo["extracted"] = acts
		if err == nil {
			fo["ok"] = true
		} else {
			fo["detail"] = "Transact performs " + strings.Join(acts, ", ") + "; " + strings.TrimSpace(string(outb))
		}
	}
	// second fact: the three monitor handlers hold the transaction lock (set-up is one step w.r.t. transactions)
	fo2 := map[string]interface{}{"name": "monitor set-up holds the transaction lock (server/server.go: Monitor, MonitorCond, MonitorCondSince)", "ok": false}
	if locked, err := extractMonitorLocking(repo); err != nil {
		fo2["detail"] = "extraction failed: " + err.Error()
	} else {
		var bs []string
		all := len(locked) == 3
		for _, h := range []string{"Monitor", "MonitorCond", "MonitorCondSince"} {
			bs = append(bs, emit.Bool(locked[h]))
			all = all && locked[h]
		}
		src := "From Coq Require Import List Bool.\nImport ListNotations.\n(* generated from server/server.go on every run *)\n" +
			"Definition monitor_setup_locked : list bool := [" + strings.Join(bs, "; ") + "].\n" +
			"Lemma monitor_setup_is_locked : forallb (fun b => b) monitor_setup_locked = true.\nProof. reflexivity. Qed.\n"
		_ = os.WriteFile(filepath.Join(o.out, "facts_C17_monitor.v"), []byte(src), 0o644)
		cmd := exec.Command("coqc", "facts_C17_monitor.v")
		cmd.Dir = o.out
		outb, err := cmd.CombinedOutput()
		fo2["extracted"] = locked
		if err == nil && all {
			fo2["ok"] = true
		} else {
			fo2["detail"] = fmt.Sprintf("handlers holding txnMutex: %v; %s", locked, strings.TrimSpace(string(outb)))
		}
	}
	// third fact: nothing else in the package touches the transaction lock
	fo3 := map[string]interface{}{"name": "txnMutex is only taken and released in the prologue of the four handlers (package server)", "ok": false}
	if stray, err := extractLockMentions(repo); err != nil {
		fo3["detail"] = "extraction failed: " + err.Error()
	} else {
		src := "From Coq Require Import List Arith.\nImport ListNotations.\n(* generated from server/*.go on every run *)\n" +
			fmt.Sprintf("Definition stray_lock_mentions : nat := %d.\n", len(stray)) +
			"Lemma no_stray_lock_mention : stray_lock_mentions = 0.\nProof. reflexivity. Qed.\n"
		_ = os.WriteFile(filepath.Join(o.out, "facts_C17_mentions.v"), []byte(src), 0o644)
		cmd := exec.Command("coqc", "facts_C17_mentions.v")
		cmd.Dir = o.out
		outb, err := cmd.CombinedOutput()
		fo3["extracted"] = stray
		if err == nil && len(stray) == 0 {
			fo3["ok"] = true
		} else {
			fo3["detail"] = fmt.Sprintf("txnMutex is also used at %v; %s", stray, strings.TrimSpace(string(outb)))
		}
	}
	// fourth fact: a monitor is told of a transaction by a call that waits for the peer's answer for as long as it takes.
	// (The model Srv/Serial has the notification inside the critical section; rpc2 serves each request of a peer in a
	// goroutine of its own, so the answer awaited here is all that keeps two notifications to one peer in commit order.)
	fo4 := map[string]interface{}{"name": "server/monitor.go: every message to a monitoring peer is an rpc2 Call (synchronous, no deadline)", "ok": false}
	if other, calls, err := extractNotifyCalls(repo); err != nil {
		fo4["detail"] = "extraction failed: " + err.Error()
	} else {
		src := "From Coq Require Import List Arith.\nImport ListNotations.\n(* generated from server/monitor.go on every run *)\n" +
			fmt.Sprintf("Definition notify_calls : nat := %d.\nDefinition notify_other : nat := %d.\n", calls, len(other)) +
			"Lemma notifications_are_awaited : notify_other = 0 /\\ 3 <= notify_calls.\nProof. split; [reflexivity|repeat constructor]. Qed.\n"
		_ = os.WriteFile(filepath.Join(o.out, "facts_C17_notify.v"), []byte(src), 0o644)
		cmd := exec.Command("coqc", "facts_C17_notify.v")
		cmd.Dir = o.out
		outb, err := cmd.CombinedOutput()
		fo4["extracted"] = map[string]interface{}{"calls": calls, "other": other}
		if err == nil && len(other) == 0 && calls >= 3 {
			fo4["ok"] = true
		} else {
			fo4["detail"] = fmt.Sprintf("%d Call(s); other ways of sending: %v; %s", calls, other, strings.TrimSpace(string(outb)))
		}
	}
	w.Extra["fact_obligations"] = []interface{}{fo, fo2, fo3, fo4}

	sc := c17Schema()
	for ci := 0; ci < ncases; ci++ {
		syms := val.NewSyms()
		syms.ID("_uuid")
		lab, err := newSrvLab(sc, o.out)
		if err != nil {
			return err
		}
		err = func() error {
			defer lab.close()
			setupPeer, err := lab.dial()
			if err != nil {
				return err
			}
			defer setupPeer.close()
			uuidN := 0
			fresh := func() string { uuidN++; return gen.UUIDn(ci*10000 + uuidN) }
			// sequential setup
			k1, k2, p1, p2 := fresh(), fresh(), fresh(), fresh()
			setup := []TOp{
				{Kind: "insert", Table: "Ctr", UUID: fresh(), Row: map[string]val.Val{"name": val.VA(val.Str("c1")), "n": val.VA(val.Int(0))}},
				{Kind: "insert", Table: "K", UUID: k1, Row: map[string]val.Val{"k": val.VA(val.Str("k1"))}},
				{Kind: "insert", Table: "K", UUID: k2, Row: map[string]val.Val{"k": val.VA(val.Str("k2"))}},
				{Kind: "insert", Table: "P", UUID: p1, Row: map[string]val.Val{"name": val.VA(val.Str("p1")), "kids": val.VS(val.Uuid(k1))}},
				{Kind: "insert", Table: "P", UUID: p2, Row: map[string]val.Val{"name": val.VA(val.Str("p2")), "kids": val.VS(val.Uuid(k2))}},
			}
			// concurrent clients
			nclients := 2 + g.Intn(4)
			type txnRec struct {
				ops     []TOp
				marker  string
				mutOnly bool // no insert, update or delete: the marker is an increment of the transaction's own row of L
				results []oResult
				rpcErr  string
			}
			recs := make([][]*txnRec, nclients)
			whereName := func(n string) []Cond { return []Cond{{Col: "name", Fn: "==", Arg: val.VA(val.Str(n))}} }
			kinds := map[string]int{}
			for c := 0; c < nclients; c++ {
				for j := 3 + g.Intn(4); j > 0; j-- {
					var ops []TOp
					switch k := g.Intn(10); {
					case k < 3:
						kinds["increment"]++
						ops = []TOp{{Kind: "mutate", Table: "Ctr", Where: whereName("c1"), Muts: []Mut{{Col: "n", Mutator: "+=", Arg: val.VA(val.Int(1))}}}}
					case k < 5:
						kinds["read-modify-write"]++
						ops = nil // filled at run time from the value read
					case k < 8:
						kinds["insert-if-absent"]++
						ops = []TOp{{Kind: "insert", Table: "U", UUID: fresh(), Row: map[string]val.Val{"name": val.VA(gen.AtomN('s', 1+g.Intn(3))), "owner": val.VA(val.Int(int64(c)))}}}
					default:
						kinds["move-reference"]++
						kid, from, to := k1, "p1", "p2"
						if g.Chance(0.5) {
							from, to = to, from
						}
						if g.Chance(0.5) {
							kid = k2
						}
						ops = []TOp{
							{Kind: "mutate", Table: "P", Where: whereName(from), Muts: []Mut{{Col: "kids", Mutator: "delete", Arg: val.VS(val.Uuid(kid))}}},
							{Kind: "mutate", Table: "P", Where: whereName(to), Muts: []Mut{{Col: "kids", Mutator: "insert", Arg: val.VS(val.Uuid(kid))}}},
						}
					}
					mutOnly := false
					if len(ops) > 0 && ops[0].Kind == "mutate" && g.Chance(0.6) {
						mutOnly = true
						kinds["mutate-only"]++
					}
					recs[c] = append(recs[c], &txnRec{ops: ops, marker: fresh(), mutOnly: mutOnly})
				}
			}
			for c := range recs {
				for _, r := range recs[c] {
					if r.mutOnly {
						setup = append(setup, TOp{Kind: "insert", Table: "L", UUID: r.marker, Row: map[string]val.Val{"c": val.VA(val.Int(0))}})
					}
				}
			}
			ob := lab.runWith(setup, setupPeer.transactor(sc.Name))
			if !ob.Committed {
				return fmt.Errorf("setup not committed: %+v", ob.Results)
			}
			// monitors
			nmon := 1 + g.Intn(2)
			var mons []*peer
			for i := 0; i < nmon; i++ {
				mp, err := lab.dial()
				if err != nil {
					return err
				}
				defer mp.close()
				reqs := map[string]interface{}{}
				for _, t := range sc.Tables {
					reqs[t.Name] = map[string]interface{}{}
				}
				method := []string{"monitor", "monitor_cond"}[g.Intn(2)]
				var reply interface{}
				if err := mp.c.Call(method, []interface{}{sc.Name, json.RawMessage(`"m"`), reqs}, &reply); err != nil {
					return fmt.Errorf("monitor: %v", err)
				}
				mons = append(mons, mp)
			}
			var wg sync.WaitGroup
			errs := make([]error, nclients)
			for c := 0; c < nclients; c++ {
				p, err := lab.dial()
				if err != nil {
					return err
				}
				defer p.close()
				wg.Add(1)
				go func(c int, p *peer) {
					defer wg.Done()
					tr := p.transactor(sc.Name)
					run := func(ops []TOp) ([]oResult, string) {
						var oops []ovsdb.Operation
						for _, op := range ops {
							oops = append(oops, op.operation(lab.db))
						}
						res, _, e := tr(oops)
						return lab.convertResults(ops, res), e
					}
					for _, r := range recs[c] {
						if r.ops == nil {
							// read-modify-write: read n, then wait for n to be unchanged and write n+1
							sel := []TOp{{Kind: "select", Table: "Ctr", Where: whereName("c1"), Cols: []string{"n"}}}
							rs, e := run(sel)
							if e != "" || len(rs) != 1 || rs[0].Kind != "rows" {
								errs[c] = fmt.Errorf("select: %v %v", e, rs)
								return
							}
							var cur int64
							for _, row := range rs[0].Rows {
								cur = row["n"].A.I
							}
							r.ops = []TOp{
								{Kind: "wait", Table: "Ctr", Where: whereName("c1"), Cols: []string{"n"}, Until: "==", Rows: []map[string]val.Val{{"n": val.VA(val.Int(cur))}}},
								{Kind: "update", Table: "Ctr", Where: whereName("c1"), Row: map[string]val.Val{"n": val.VA(val.Int(cur + 1))}},
							}
						}
						if r.mutOnly {
							r.ops = append(r.ops, TOp{Kind: "mutate", Table: "L", Where: []Cond{{Col: "_uuid", Fn: "==", Arg: val.VA(val.Uuid(r.marker))}},
								Muts: []Mut{{Col: "c", Mutator: "+=", Arg: val.VA(val.Int(1))}}})
						} else {
							r.ops = append(r.ops, TOp{Kind: "insert", Table: "M", UUID: r.marker, Row: map[string]val.Val{"c": val.VA(val.Int(int64(c)))}})
						}
						r.results, r.rpcErr = run(r.ops)
					}
				}(c, p)
			}
			wg.Wait()
			for _, e := range errs {
				if e != nil {
					return e
				}
			}
			// the order each monitor saw
			byMarker := map[string]*txnRec{}
			for c := range recs {
				for _, r := range recs[c] {
					byMarker[r.marker] = r
				}
			}
			oracle := ""
			fail := func(format string, a ...interface{}) {
				if oracle == "" {
					oracle = fmt.Sprintf(format, a...)
				}
			}
			var orders [][]string
			for mi, mp := range mons {
				a, b := mp.take(`"m"`)
				var order []string
				add := func(ms []string) {
					if len(ms) != 1 {
						fail("monitor %d: a notification carries %d marker rows", mi, len(ms))
					}
					order = append(order, ms...)
				}
				for _, tu := range a {
					var ms []string
					for u, ru := range tu["M"] {
						if ru.New != nil && ru.Old == nil {
							ms = append(ms, u)
						}
					}
					for u, ru := range tu["L"] {
						if ru.New != nil && ru.Old != nil {
							ms = append(ms, u)
						}
					}
					add(ms)
				}
				for _, tu := range b {
					var ms []string
					for u, ru := range tu["M"] {
						if ru.Insert != nil {
							ms = append(ms, u)
						}
					}
					for u, ru := range tu["L"] {
						if ru.Modify != nil {
							ms = append(ms, u)
						}
					}
					add(ms)
				}
				if len(a) > 0 && len(b) > 0 {
					fail("monitor %d was notified in both encodings", mi)
				}
				orders = append(orders, order)
			}
			agree := true
			for _, ord := range orders[1:] {
				if strings.Join(ord, ",") != strings.Join(orders[0], ",") {
					agree = false
					fail("two monitors were notified in different orders")
				}
			}
			// committed (in notification order) and failed transactions
			var committedT, failedT []string
			seen := map[string]bool{}
			ncommitted := 0
			for _, m := range orders[0] {
				r := byMarker[m]
				if r == nil {
					fail("notification for an unknown marker %s", m)
					continue
				}
				seen[m] = true
				ncommitted++
				committedT = append(committedT, fmt.Sprintf("(%s, %s)", coqTxn(syms, r.ops), coqResults(syms, r.results)))
				for _, x := range r.results {
					if x.Kind == "err" {
						fail("a transaction whose client received an error (%s) was notified to the monitors", x.Msg)
					}
				}
			}
			incrementsOK := 0
			for c := range recs {
				for _, r := range recs[c] {
					if r.rpcErr != "" {
						fail("client %d: %s", c, r.rpcErr)
					}
					hasErr := false
					for _, x := range r.results {
						if x.Kind == "err" {
							hasErr = true
						}
					}
					if !seen[r.marker] {
						if !hasErr {
							fail("client %d received results without error but no monitor was notified of the transaction", c)
						}
						failedT = append(failedT, fmt.Sprintf("(%s, %s)", coqTxn(syms, r.ops), coqResults(syms, r.results)))
					} else if len(r.ops) == 2 && r.ops[0].Kind == "mutate" && r.ops[0].Table == "Ctr" {
						incrementsOK++
					} else if len(r.ops) == 3 && r.ops[0].Kind == "wait" {
						incrementsOK++
					}
				}
			}
			// final state; direct oracles: no lost increment, one winner per unique value
			st, _, err := lab.state()
			if err != nil {
				return err
			}
			for _, row := range st["Ctr"] {
				if int(row["n"].A.I) != incrementsOK {
					fail("%d committed increments, the counter is %d", incrementsOK, row["n"].A.I)
				}
			}
			names := map[string]int{}
			for _, row := range st["U"] {
				names[row["name"].A.S]++
			}
			for n, k := range names {
				if k != 1 {
					fail("%d rows hold the unique name %s", k, n)
				}
			}
			var ts []string
			for _, t := range sc.Tables {
				var rows []string
				for _, u := range sortedRowKeys(st[t.Name]) {
					rows = append(rows, fmt.Sprintf("(%d%%N, %s)", syms.ID(u), dyn.CoqRow(syms, st[t.Name][u])))
				}
				ts = append(ts, fmt.Sprintf("(%d%%N, [%s])", syms.ID(t.Name), strings.Join(rows, "; ")))
			}
			term := fmt.Sprintf("C17.mk (%s)\n   [%s]\n   [%s]\n   [%s]\n   [%s] %s", dyn.CoqSchema(syms, sc), coqTxn(syms, setup),
				strings.Join(committedT, ";\n    "), strings.Join(failedT, ";\n    "), strings.Join(ts, ";\n    "), emit.Bool(agree))
			for k, n := range kinds {
				w.Dist[k] += n
			}
			w.Dist["committed"] += ncommitted
			w.Dist["failed"] += len(failedT)
			w.Add(emit.Case{Term: term, JSON: map[string]interface{}{"clients": nclients, "monitors": nmon, "committed": ncommitted, "failed": len(failedT)},
				Key: term, Nontrivial: len(failedT) > 0 && ncommitted >= 6, Oracle: oracle})
			return nil
		}()
		if err != nil {
			return err
		}
	}
	return w.Flush()
}
