package main

// Shared pieces of the wire-level drivers (C12 round trips, C19 totality):
// reserved symbols, Go tree -> Gallina [gval] printing, structural generators
// of valid wire values and the corruptor.

import (
	"encoding/json"
	"fmt"
	"math/big"
	"reflect"
	"sort"
	"strings"

	"github.com/ovn-org/libovsdb/ovsdb"

	"verifharness/gen"
	"verifharness/val"
)

// order fixed by coq/Wire/Json.v and coq/Wire/SchemaCodec.v
var wireReserved = []string{"", "_uuid", "uuid", "named-uuid", "set", "map",
	"==", "!=", "<", "<=", ">", ">=", "includes", "excludes",
	"+=", "-=", "*=", "/=", "%=", "insert", "delete",
	"unlimited", "integer", "real", "boolean", "string", "00000000-0000-0000-0000-000000000000",
	"type", "enum", "minReal", "maxReal", "minInteger", "maxInteger", "minLength", "maxLength", "refTable", "refType",
	"key", "value", "min", "max", "ephemeral", "mutable",
	"op", "table", "row", "rows", "columns", "mutations", "timeout", "where", "until", "durable", "comment", "lock", "uuid-name", "select",
	"new", "old", "initial", "modify", "count", "error", "details"} // 57..63: coq/Wire/Messages.v

var wireFunctions = wireReserved[6:14]
var wireMutators = wireReserved[14:21]
var wireAtomic = []string{"integer", "real", "boolean", "string", "uuid"}

func newWireSyms() *val.Syms {
	s := val.NewSyms()
	for i, x := range wireReserved {
		if s.ID(x) != i {
			panic("wire symbol table out of order")
		}
	}
	return s
}

func coqNum(f float64) string {
	r := new(big.Rat).SetFloat64(f)
	if r == nil {
		return "GNull"
	}
	n := r.Num().String()
	if r.Sign() < 0 {
		n = "(" + n + ")"
	}
	return fmt.Sprintf("GNum %s%%Z %s%%positive", n, r.Denom().String())
}

// canonText is a canonical text of a Go wire value (used to order map pairs).
func canonText(x interface{}) string {
	b, err := json.Marshal(x)
	if err != nil {
		return fmt.Sprintf("%#v", x)
	}
	return string(b)
}

// gvalTerm prints a Go value (generic JSON tree and/or ovsdb notation types) as a [gval] term.
func gvalTerm(s *val.Syms, x interface{}) string {
	switch v := x.(type) {
	case nil:
		return "GNull"
	case bool:
		return fmt.Sprintf("GBool %v", v)
	case float64:
		return coqNum(v)
	case int:
		if v < 0 {
			return fmt.Sprintf("GNum (%d)%%Z 1%%positive", v)
		}
		return fmt.Sprintf("GNum %d%%Z 1%%positive", v)
	case int64:
		if v < 0 {
			return fmt.Sprintf("GNum (%d)%%Z 1%%positive", v)
		}
		return fmt.Sprintf("GNum %d%%Z 1%%positive", v)
	case json.Number:
		// a number read with UseNumber: the exact fraction its digits denote
		r, ok := new(big.Rat).SetString(string(v))
		if !ok {
			return "GNull"
		}
		n := r.Num().String()
		if r.Sign() < 0 {
			n = "(" + n + ")"
		}
		return fmt.Sprintf("GNum %s%%Z %s%%positive", n, r.Denom().String())
	case string:
		return fmt.Sprintf("GStr %d%%N", s.ID(v))
	case []interface{}:
		parts := make([]string, len(v))
		for i, e := range v {
			parts[i] = gvalTerm(s, e)
		}
		return "GArr [" + strings.Join(parts, "; ") + "]"
	case []string:
		parts := make([]string, len(v))
		for i, e := range v {
			parts[i] = gvalTerm(s, e)
		}
		return "GArr [" + strings.Join(parts, "; ") + "]"
	case map[string]interface{}:
		return gobjTerm(s, v)
	case ovsdb.Row:
		return gobjTerm(s, map[string]interface{}(v))
	case ovsdb.UUID:
		return fmt.Sprintf("GUuid %d%%N", s.ID(v.GoUUID))
	case ovsdb.OvsSet:
		parts := make([]string, len(v.GoSet))
		for i, e := range v.GoSet {
			parts[i] = gvalTerm(s, e)
		}
		return "GSet [" + strings.Join(parts, "; ") + "]"
	case ovsdb.OvsMap:
		type kv struct{ k, t string }
		var l []kv
		for k, e := range v.GoMap {
			l = append(l, kv{canonText(k), "(" + gvalTerm(s, k) + ", " + gvalTerm(s, e) + ")"})
		}
		sort.Slice(l, func(i, j int) bool { return l[i].k < l[j].k })
		parts := make([]string, len(l))
		for i := range l {
			parts[i] = l[i].t
		}
		return "GMap [" + strings.Join(parts, "; ") + "]"
	}
	panic(fmt.Sprintf("gvalTerm: unsupported %T", x))
}

func gobjTerm(s *val.Syms, m map[string]interface{}) string {
	ks := make([]string, 0, len(m))
	for k := range m {
		ks = append(ks, k)
	}
	sort.Strings(ks)
	parts := make([]string, len(ks))
	for i, k := range ks {
		parts[i] = fmt.Sprintf("(%d%%N, %s)", s.ID(k), gvalTerm(s, m[k]))
	}
	return "GObj [" + strings.Join(parts, "; ") + "]"
}

// toTree marshals a Go value and reads it back as a generic tree; the pairs of
// every ["map", [...]] array are put in canonical order (Go map iteration is random).
func toTree(x interface{}) (interface{}, error) {
	b, err := json.Marshal(x)
	if err != nil {
		return nil, err
	}
	var t interface{}
	if err := json.Unmarshal(b, &t); err != nil {
		return nil, err
	}
	return canonMaps(t), nil
}

func canonMaps(t interface{}) interface{} {
	switch v := t.(type) {
	case []interface{}:
		for i := range v {
			v[i] = canonMaps(v[i])
		}
		if len(v) == 2 && v[0] == "map" {
			if pairs, ok := v[1].([]interface{}); ok {
				sort.SliceStable(pairs, func(i, j int) bool {
					pi, oki := pairs[i].([]interface{})
					pj, okj := pairs[j].([]interface{})
					if !oki || !okj || len(pi) == 0 || len(pj) == 0 {
						return false
					}
					return wireKeyText(pi[0]) < wireKeyText(pj[0])
				})
			}
		}
	case map[string]interface{}:
		for k := range v {
			v[k] = canonMaps(v[k])
		}
	}
	return t
}

// wireKeyText orders an encoded map key like canonText orders the decoded key.
func wireKeyText(k interface{}) string {
	if a, ok := k.([]interface{}); ok && len(a) == 2 && (a[0] == "uuid" || a[0] == "named-uuid") {
		if s, ok := a[1].(string); ok {
			return canonText(ovsdb.UUID{GoUUID: s})
		}
	}
	return canonText(k)
}

// ---------------------------------------------------------------------------
// generators of valid wire values (Go-side representation as the API takes them)

type wgen struct {
	bigBounds bool // integer bounds of base types beyond 2^53 (C12; C19 passes its trees through float64)
	g         *gen.G
}

func (w *wgen) uuid() ovsdb.UUID {
	if w.g.Chance(0.2) {
		// a named uuid: an <id>, letters of either case
		return ovsdb.UUID{GoUUID: fmt.Sprintf([]string{"row%d", "Row%d", "newPort_%d", "_N%d"}[w.g.Intn(4)], w.g.Intn(4))}
	}
	return ovsdb.UUID{GoUUID: gen.UUIDn(w.g.Intn(6))}
}

// atom of type t ('i','r','b','s','u'); numbers are float64 as after decoding
func (w *wgen) atom(t byte, i int) interface{} {
	switch t {
	case 'i':
		return float64(i*7 - 3)
	case 'r':
		return float64(i) + 0.5
	case 'b':
		return i%2 == 0
	case 's':
		return []string{"", "a", "set", "uuid", "b c", "é", "map", "x"}[i%8]
	default:
		if i%5 == 4 {
			return ovsdb.UUID{GoUUID: fmt.Sprintf("row%d", i)}
		}
		return ovsdb.UUID{GoUUID: gen.UUIDn(i)}
	}
}

func (w *wgen) atype() byte { return "irbsu"[w.g.Intn(5)] }

func (w *wgen) set(t byte, n int) ovsdb.OvsSet {
	s := ovsdb.OvsSet{GoSet: []interface{}{}}
	for _, i := range w.g.R.Perm(8)[:n] {
		if t == 'b' && i >= 2 {
			continue
		}
		s.GoSet = append(s.GoSet, w.atom(t, i))
	}
	return s
}

func (w *wgen) omap(n int) ovsdb.OvsMap {
	kt, vt := "isu"[w.g.Intn(3)], w.atype()
	m := ovsdb.OvsMap{GoMap: map[interface{}]interface{}{}}
	setVals := w.g.Chance(0.25)
	for _, i := range w.g.R.Perm(8)[:n] {
		var v interface{} = w.atom(vt, w.g.Intn(8))
		if setVals {
			k := []int{0, 2, 3}[w.g.Intn(3)]
			v = w.set('u', k)
		}
		m.GoMap[w.atom(kt, i)] = v
	}
	return m
}

// value: an atom, a set (not a singleton: notation normal form) or a map
func (w *wgen) value() interface{} {
	switch w.g.Intn(6) {
	case 0, 1:
		return w.atom(w.atype(), w.g.Intn(8))
	case 2, 3:
		n := []int{0, 2, 3, 4}[w.g.Intn(4)]
		s := w.set(w.atype(), n)
		if len(s.GoSet) == 1 {
			return s.GoSet[0]
		}
		return s
	default:
		return w.omap(w.g.Intn(4))
	}
}

func (w *wgen) row() ovsdb.Row {
	r := ovsdb.Row{}
	for i := w.g.Intn(4); i > 0; i-- {
		r[fmt.Sprintf("c%d", w.g.Intn(5))] = w.value()
	}
	return r
}

func (w *wgen) condition() ovsdb.Condition {
	return ovsdb.Condition{Column: fmt.Sprintf("c%d", w.g.Intn(5)),
		Function: ovsdb.ConditionFunction(wireFunctions[w.g.Intn(len(wireFunctions))]), Value: w.value()}
}

func (w *wgen) mutation() ovsdb.Mutation {
	return ovsdb.Mutation{Column: fmt.Sprintf("c%d", w.g.Intn(5)),
		Mutator: ovsdb.Mutator(wireMutators[w.g.Intn(len(wireMutators))]), Value: w.value()}
}

// base type as JSON object (all constraint members optional)
func (w *wgen) baseJSON(forceObj bool) interface{} {
	t := wireAtomic[w.g.Intn(5)]
	if !forceObj && w.g.Chance(0.3) {
		return t
	}
	o := map[string]interface{}{"type": t}
	opt := func(k string, v interface{}) {
		if w.g.Chance(0.4) {
			o[k] = v
		}
	}
	// bounds: far apart, adjacent, equal (one admissible value, a fixed length), and only one of the two
	pair := func(lo, hi string, base, step float64) {
		switch w.g.Intn(6) {
		case 0: // equal bounds
			v := base + step*float64(w.g.Intn(4))
			o[lo], o[hi] = v, v
		case 1: // adjacent
			v := base + step*float64(w.g.Intn(4))
			o[lo], o[hi] = v, v+step
		default:
			opt(lo, base+step*float64(w.g.Intn(5)))
			opt(hi, base+step*float64(10+w.g.Intn(5)))
		}
	}
	switch t {
	case "integer":
		pair("minInteger", "maxInteger", -2, 1)
		// bounds no float64 holds exactly: neighbours of 2^53 and the ends of int64
		if w.bigBounds && w.g.Chance(0.3) {
			big := []int64{9007199254740993, 9007199254740995, 9223372036854775807, 4611686018427387905, 9007199254740992}
			sml := []int64{-9007199254740993, -9223372036854775808, -9223372036854775807, -4611686018427387905, 0}
			switch w.g.Intn(3) {
			case 0:
				o["maxInteger"] = big[w.g.Intn(len(big))]
			case 1:
				o["minInteger"] = sml[w.g.Intn(len(sml))]
				delete(o, "maxInteger")
			default:
				o["minInteger"], o["maxInteger"] = sml[w.g.Intn(len(sml))], big[w.g.Intn(len(big))]
			}
		}
	case "real":
		pair("minReal", "maxReal", -1.5, 0.25)
	case "string":
		pair("minLength", "maxLength", 0, 1)
	case "uuid":
		opt("refTable", fmt.Sprintf("T%d", w.g.Intn(3)))
		opt("refType", []string{"strong", "weak"}[w.g.Intn(2)])
	}
	if t != "uuid" && t != "boolean" && w.g.Chance(0.3) {
		var elems []interface{}
		for _, i := range w.g.R.Perm(8)[:1+w.g.Intn(3)] {
			elems = append(elems, w.atom(t[0], i))
		}
		if len(elems) == 1 {
			o["enum"] = elems[0]
		} else {
			o["enum"] = []interface{}{"set", elems}
		}
	}
	return o
}

func (w *wgen) coltyJSON() interface{} {
	if w.g.Chance(0.25) {
		return wireAtomic[w.g.Intn(5)]
	}
	o := map[string]interface{}{"key": w.baseJSON(false)}
	if w.g.Chance(0.35) {
		o["value"] = w.baseJSON(false)
	}
	if w.g.Chance(0.5) {
		o["min"] = float64(w.g.Intn(2))
	}
	switch w.g.Intn(4) {
	case 0:
		o["max"] = "unlimited"
	case 1:
		o["max"] = float64(1 + w.g.Intn(4))
	}
	return o
}

func (w *wgen) columnJSON() interface{} {
	o := map[string]interface{}{"type": w.coltyJSON()}
	if w.g.Chance(0.3) {
		o["ephemeral"] = w.g.Chance(0.5)
	}
	if w.g.Chance(0.3) {
		o["mutable"] = w.g.Chance(0.5)
	}
	return o
}

func (w *wgen) schemaJSON() interface{} {
	tables := map[string]interface{}{}
	for i := 1 + w.g.Intn(3); i > 0; i-- {
		cols := map[string]interface{}{}
		var names []string
		for j := 1 + w.g.Intn(4); j > 0; j-- {
			n := fmt.Sprintf("c%d", w.g.Intn(6))
			if _, dup := cols[n]; !dup {
				names = append(names, n)
			}
			cols[n] = w.columnJSON()
		}
		t := map[string]interface{}{"columns": cols}
		if w.g.Chance(0.4) {
			t["indexes"] = []interface{}{[]interface{}{names[0]}}
		}
		if w.g.Chance(0.4) {
			t["isRoot"] = true
		}
		tables[fmt.Sprintf("T%d", i)] = t
	}
	return map[string]interface{}{"name": "db", "version": "1.2.3", "tables": tables}
}

func intp(i int) *int       { return &i }
func boolp(b bool) *bool    { return &b }
func strp(s string) *string { return &s }

func (w *wgen) operation() ovsdb.Operation {
	kinds := []string{"insert", "select", "update", "mutate", "delete", "wait", "commit", "abort", "comment", "assert"}
	op := ovsdb.Operation{Op: kinds[w.g.Intn(len(kinds))]}
	some := func() bool { return w.g.Chance(0.6) }
	conds := func() []ovsdb.Condition {
		var c []ovsdb.Condition
		for i := w.g.Intn(3); i > 0; i-- {
			c = append(c, w.condition())
		}
		return c
	}
	switch op.Op {
	case "insert":
		op.Table = "T"
		op.Row = w.row()
		if some() {
			op.UUIDName = "row1"
		}
		if some() {
			op.UUID = gen.UUIDn(3)
		}
	case "select":
		op.Table = "T"
		op.Where = conds()
		if some() {
			op.Columns = []string{"c1", "c2"}
		}
	case "update":
		op.Table = "T"
		op.Where = conds()
		op.Row = w.row()
	case "mutate":
		op.Table = "T"
		op.Where = conds()
		for i := w.g.Intn(3); i > 0; i-- {
			op.Mutations = append(op.Mutations, w.mutation())
		}
	case "delete":
		op.Table = "T"
		op.Where = conds()
	case "wait":
		op.Table = "T"
		op.Where = conds()
		if some() {
			op.Timeout = intp(w.g.Intn(3))
		}
		op.Columns = []string{"c1"}
		op.Until = []string{"==", "!="}[w.g.Intn(2)]
		for i := w.g.Intn(3); i > 0; i-- {
			op.Rows = append(op.Rows, w.row())
		}
	case "commit":
		if some() {
			op.Durable = boolp(w.g.Chance(0.5))
		}
	case "comment":
		if some() {
			op.Comment = strp([]string{"", "hello"}[w.g.Intn(2)])
		}
	case "assert":
		if some() {
			op.Lock = strp("lock0")
		}
	}
	return op
}

func (w *wgen) rowUpdates() ovsdb.TableUpdates {
	tu := ovsdb.TableUpdates{}
	for i := w.g.Intn(3); i > 0; i-- {
		t := ovsdb.TableUpdate{}
		for j := 1 + w.g.Intn(2); j > 0; j-- {
			ru := &ovsdb.RowUpdate{}
			if w.g.Chance(0.7) {
				r := w.row()
				ru.New = &r
			}
			if w.g.Chance(0.5) || ru.New == nil {
				r := w.row()
				ru.Old = &r
			}
			t[gen.UUIDn(w.g.Intn(5))] = ru
		}
		tu[fmt.Sprintf("T%d", i)] = t
	}
	return tu
}

func (w *wgen) rowUpdates2() ovsdb.TableUpdates2 {
	tu := ovsdb.TableUpdates2{}
	for i := w.g.Intn(3); i > 0; i-- {
		t := ovsdb.TableUpdate2{}
		for j := 1 + w.g.Intn(2); j > 0; j-- {
			ru := &ovsdb.RowUpdate2{}
			r := w.row()
			switch w.g.Intn(4) {
			case 0:
				ru.Initial = &r
			case 1:
				ru.Insert = &r
			case 2:
				ru.Modify = &r
			default:
				ru.Delete = &r
			}
			t[gen.UUIDn(w.g.Intn(5))] = ru
		}
		tu[fmt.Sprintf("T%d", i)] = t
	}
	return tu
}

func (w *wgen) result() ovsdb.OperationResult {
	switch w.g.Intn(5) {
	case 0:
		return ovsdb.OperationResult{Count: w.g.Intn(4)}
	case 1:
		return ovsdb.OperationResult{UUID: ovsdb.UUID{GoUUID: gen.UUIDn(w.g.Intn(4))}}
	case 2:
		var rows []ovsdb.Row
		for i := w.g.Intn(3); i > 0; i-- {
			rows = append(rows, w.row())
		}
		return ovsdb.OperationResult{Rows: rows}
	case 3:
		return ovsdb.OperationResult{Error: "constraint violation", Details: "x"}
	}
	return ovsdb.OperationResult{}
}

func (w *wgen) monitorRequest() ovsdb.MonitorRequest {
	r := ovsdb.MonitorRequest{}
	if w.g.Chance(0.5) {
		r.Columns = []string{"c1", "c3"}
	}
	if w.g.Chance(0.4) {
		r.Where = []ovsdb.Condition{w.condition()}
	}
	if w.g.Chance(0.6) {
		r.Select = ovsdb.NewMonitorSelect(w.g.Chance(0.5), w.g.Chance(0.5), w.g.Chance(0.5), w.g.Chance(0.5))
	}
	return r
}

// ---------------------------------------------------------------------------
// normal form of Go wire values for the round-trip oracle: numbers as float64,
// nil and empty collections identified, a singleton OvsSet identified with its
// element (RFC 7047 notation), pointers dereferenced.

func normGo(x interface{}) interface{} {
	if x == nil {
		return nil
	}
	switch v := x.(type) {
	case ovsdb.UUID:
		return "\x00uuid:" + v.GoUUID
	case ovsdb.OvsSet:
		if len(v.GoSet) == 1 {
			return normGo(v.GoSet[0])
		}
		out := []interface{}{"\x00set"}
		for _, e := range v.GoSet {
			out = append(out, normGo(e))
		}
		return out
	case ovsdb.OvsMap:
		out := map[string]interface{}{"\x00map": true}
		for k, e := range v.GoMap {
			out[canonText(normGo(k))] = normGo(e)
		}
		return out
	case ovsdb.MonitorSelect:
		return []interface{}{"\x00select", v.Initial(), v.Insert(), v.Delete(), v.Modify()}
	}
	rv := reflect.ValueOf(x)
	switch rv.Kind() {
	case reflect.Ptr, reflect.Interface:
		if rv.IsNil() {
			return nil
		}
		return normGo(rv.Elem().Interface())
	case reflect.Int, reflect.Int8, reflect.Int16, reflect.Int32, reflect.Int64:
		return float64(rv.Int())
	case reflect.Float32, reflect.Float64:
		return rv.Float()
	case reflect.String:
		return rv.String()
	case reflect.Bool:
		return rv.Bool()
	case reflect.Slice, reflect.Array:
		if rv.Len() == 0 {
			return nil
		}
		out := make([]interface{}, rv.Len())
		for i := range out {
			out[i] = normGo(rv.Index(i).Interface())
		}
		return out
	case reflect.Map:
		if rv.Len() == 0 {
			return nil
		}
		out := map[string]interface{}{}
		for _, k := range rv.MapKeys() {
			out[canonText(normGo(k.Interface()))] = normGo(rv.MapIndex(k).Interface())
		}
		return out
	case reflect.Struct:
		out := map[string]interface{}{}
		for i := 0; i < rv.NumField(); i++ {
			f := rv.Type().Field(i)
			if f.PkgPath != "" || f.Tag.Get("json") == "-" {
				continue
			}
			if n := normGo(rv.Field(i).Interface()); n != nil && n != "" && n != false && n != 0.0 {
				out[f.Name] = n
			}
		}
		if len(out) == 0 {
			return nil
		}
		return out
	}
	return fmt.Sprintf("%#v", x)
}

// ---------------------------------------------------------------------------
// corruption of generic trees

func (w *wgen) junk() interface{} {
	j := func() interface{} { return w.smallJunk() }
	switch w.g.Intn(22) {
	case 0:
		return []interface{}{}
	case 1:
		return []interface{}{j()}
	case 2:
		return []interface{}{"set"}
	case 3:
		return []interface{}{"set", j()}
	case 4:
		return []interface{}{"uuid"}
	case 5:
		return []interface{}{"uuid", j()}
	case 6:
		return []interface{}{"map"}
	case 7:
		return []interface{}{"map", j()}
	case 8:
		return []interface{}{"map", []interface{}{j()}}
	case 9:
		return []interface{}{"map", []interface{}{[]interface{}{j()}}}
	case 10:
		return []interface{}{"map", []interface{}{[]interface{}{j(), j()}}}
	case 11:
		return []interface{}{"set", []interface{}{j(), j()}}
	case 12:
		return map[string]interface{}{}
	case 13:
		return map[string]interface{}{"a": j()}
	case 14:
		return []interface{}{"named-uuid", j(), j()}
	case 15:
		return []interface{}{j(), j(), j()}
	case 16:
		return []interface{}{"set", []interface{}{[]interface{}{"set", []interface{}{j()}}}}
	case 17:
		return []interface{}{"map", []interface{}{[]interface{}{[]interface{}{"set", []interface{}{}}, j()}}}
	}
	return j()
}

func (w *wgen) smallJunk() interface{} {
	switch w.g.Intn(12) {
	case 0:
		return nil
	case 1:
		return true
	case 2:
		return 0.0
	case 3:
		return 1.5
	case 4:
		return -1.0
	case 5:
		return "x"
	case 6:
		return "set"
	case 7:
		return "map"
	case 8:
		return "uuid"
	case 9:
		return []interface{}{}
	case 10:
		return []interface{}{"uuid", gen.UUIDn(1)}
	}
	return ""
}

// corrupt applies one structural change at a random node of the tree.
func (w *wgen) corrupt(t interface{}) interface{} {
	n := countNodes(t)
	target := w.g.Intn(n)
	i := 0
	var rec func(x interface{}) interface{}
	rec = func(x interface{}) interface{} {
		me := i
		i++
		if me == target {
			return w.mutateNode(x)
		}
		switch v := x.(type) {
		case []interface{}:
			out := make([]interface{}, len(v))
			for k := range v {
				out[k] = rec(v[k])
			}
			return out
		case map[string]interface{}:
			ks := make([]string, 0, len(v))
			for k := range v {
				ks = append(ks, k)
			}
			sort.Strings(ks)
			out := map[string]interface{}{}
			for _, k := range ks {
				out[k] = rec(v[k])
			}
			return out
		}
		return x
	}
	return rec(t)
}

func countNodes(x interface{}) int {
	n := 1
	switch v := x.(type) {
	case []interface{}:
		for _, e := range v {
			n += countNodes(e)
		}
	case map[string]interface{}:
		for _, e := range v {
			n += countNodes(e)
		}
	}
	return n
}

func (w *wgen) mutateNode(x interface{}) interface{} {
	switch v := x.(type) {
	case []interface{}:
		switch w.g.Intn(6) {
		case 0:
			return []interface{}{}
		case 1:
			if len(v) > 0 {
				k := w.g.Intn(len(v))
				out := append([]interface{}{}, v[:k]...)
				return append(out, v[k+1:]...)
			}
		case 2:
			if len(v) > 0 {
				out := append([]interface{}{}, v...)
				out[w.g.Intn(len(v))] = w.junk()
				return out
			}
		case 3:
			return append(append([]interface{}{}, v...), w.junk())
		case 4:
			if len(v) > 1 {
				out := append([]interface{}{}, v...)
				out[0], out[1] = out[1], out[0]
				return out
			}
		}
	case map[string]interface{}:
		ks := make([]string, 0, len(v))
		for k := range v {
			ks = append(ks, k)
		}
		sort.Strings(ks)
		out := map[string]interface{}{}
		for k, e := range v {
			out[k] = e
		}
		if len(ks) > 0 {
			k := ks[w.g.Intn(len(ks))]
			switch w.g.Intn(3) {
			case 0:
				delete(out, k)
			case 1:
				out[k] = w.junk()
			default:
				out[k] = nil
			}
			return out
		}
	case string:
		if w.g.Chance(0.5) {
			return []string{"set", "map", "uuid", "named-uuid", "", "unlimited", "bogus"}[w.g.Intn(7)]
		}
	case float64:
		if w.g.Chance(0.5) {
			return []interface{}{0.0, -1.0, 0.5, 1e15, "1"}[w.g.Intn(5)]
		}
	}
	return w.junk()
}

var _ = val.NewSyms

// wopTerm prints an ovsdb.Operation as a [wop] record term.
func wopTerm(s *val.Syms, op ovsdb.Operation) string {
	sym := func(x string) string { return fmt.Sprintf("%d%%N", s.ID(x)) }
	rowT := func(r ovsdb.Row) string { return gobjTerm(s, map[string]interface{}(r))[len("GObj "):] }
	var rows, cols, muts, wh []string
	for _, r := range op.Rows {
		rows = append(rows, rowT(r))
	}
	for _, c := range op.Columns {
		cols = append(cols, sym(c))
	}
	for _, m := range op.Mutations {
		muts = append(muts, fmt.Sprintf("(%s, %s, %s)", sym(m.Column), sym(string(m.Mutator)), gvalTerm(s, m.Value)))
	}
	for _, c := range op.Where {
		wh = append(wh, fmt.Sprintf("(%s, %s, %s)", sym(c.Column), sym(string(c.Function)), gvalTerm(s, c.Value)))
	}
	optI := "None"
	if op.Timeout != nil {
		optI = fmt.Sprintf("(Some %s)", val.CoqZ(int64(*op.Timeout)))
	}
	optB := "None"
	if op.Durable != nil {
		optB = fmt.Sprintf("(Some %v)", *op.Durable)
	}
	optS := func(p *string) string {
		if p == nil {
			return "None"
		}
		return "(Some " + sym(*p) + ")"
	}
	return fmt.Sprintf("(mkWOp %s %s %s [%s] [%s] [%s] %s [%s] %s %s %s %s %s %s)", sym(op.Op), sym(op.Table), rowT(op.Row),
		strings.Join(rows, "; "), strings.Join(cols, "; "), strings.Join(muts, "; "), optI, strings.Join(wh, "; "), sym(op.Until),
		optB, optS(op.Comment), optS(op.Lock), sym(op.UUID), sym(op.UUIDName))
}
