package main

// C12, the messages of coq/Wire/Messages.v: table updates in both formats,
// operation results, monitor requests and monitor_cond_since replies are
// printed as the model's records (value, the implementation's encoding, what
// the implementation decodes from it), so that the modelled struct codecs are
// compared with encoding/json working through the field tags.

import (
	"encoding/json"
	"fmt"
	"reflect"
	"sort"
	"strings"

	"github.com/ovn-org/libovsdb/ovsdb"

	"verifharness/gen"
	"verifharness/val"
)

func wrowTerm(s *val.Syms, r ovsdb.Row) string {
	return gobjTerm(s, map[string]interface{}(r))[len("GObj "):]
}

func prowTerm(s *val.Syms, r *ovsdb.Row) string {
	if r == nil {
		return "None"
	}
	return "(Some " + wrowTerm(s, *r) + ")"
}

func sortedKeys(m interface{}) []string {
	var ks []string
	for _, k := range reflect.ValueOf(m).MapKeys() {
		ks = append(ks, k.String())
	}
	sort.Strings(ks)
	return ks
}

func tuTerm(s *val.Syms, tu ovsdb.TableUpdates) string {
	var ts []string
	for _, tn := range sortedKeys(tu) {
		var rs []string
		for _, u := range sortedKeys(tu[tn]) {
			ru := tu[tn][u]
			if ru == nil {
				rs = append(rs, fmt.Sprintf("(%d%%N, None)", s.ID(u)))
				continue
			}
			rs = append(rs, fmt.Sprintf("(%d%%N, Some (mkWRu %s %s))", s.ID(u), prowTerm(s, ru.New), prowTerm(s, ru.Old)))
		}
		ts = append(ts, fmt.Sprintf("(%d%%N, [%s])", s.ID(tn), strings.Join(rs, "; ")))
	}
	return "[" + strings.Join(ts, "; ") + "]"
}

func tu2Term(s *val.Syms, tu ovsdb.TableUpdates2) string {
	var ts []string
	for _, tn := range sortedKeys(tu) {
		var rs []string
		for _, u := range sortedKeys(tu[tn]) {
			ru := tu[tn][u]
			if ru == nil {
				rs = append(rs, fmt.Sprintf("(%d%%N, None)", s.ID(u)))
				continue
			}
			rs = append(rs, fmt.Sprintf("(%d%%N, Some (mkWRu2 %s %s %s %s))", s.ID(u),
				prowTerm(s, ru.Initial), prowTerm(s, ru.Insert), prowTerm(s, ru.Modify), prowTerm(s, ru.Delete)))
		}
		ts = append(ts, fmt.Sprintf("(%d%%N, [%s])", s.ID(tn), strings.Join(rs, "; ")))
	}
	return "[" + strings.Join(ts, "; ") + "]"
}

func resultTerm(s *val.Syms, r ovsdb.OperationResult) string {
	var rows []string
	for _, x := range r.Rows {
		rows = append(rows, wrowTerm(s, x))
	}
	return fmt.Sprintf("(mkWRes %s %d%%N %d%%N %d%%N [%s])", val.CoqZ(int64(r.Count)), s.ID(r.Error), s.ID(r.Details), s.ID(r.UUID.GoUUID),
		strings.Join(rows, "; "))
}

// the four members of a MonitorSelect are unexported pointers: read by reflection
func selectTerm(m *ovsdb.MonitorSelect) string {
	if m == nil {
		return "None"
	}
	rv := reflect.ValueOf(m).Elem()
	pb := func(name string) string {
		f := rv.FieldByName(name)
		if f.IsNil() {
			return "None"
		}
		return fmt.Sprintf("(Some %v)", f.Elem().Bool())
	}
	return fmt.Sprintf("(Some (mkWSel %s %s %s %s))", pb("initial"), pb("insert"), pb("delete"), pb("modify"))
}

func monreqTerm(s *val.Syms, m ovsdb.MonitorRequest) string {
	cols := "None"
	if m.Columns != nil {
		var cs []string
		for _, c := range m.Columns {
			cs = append(cs, fmt.Sprintf("%d%%N", s.ID(c)))
		}
		cols = "(Some [" + strings.Join(cs, "; ") + "])"
	}
	var wh []string
	for _, c := range m.Where {
		wh = append(wh, fmt.Sprintf("(%d%%N, %d%%N, %s)", s.ID(c.Column), s.ID(string(c.Function)), gvalTerm(s, c.Value)))
	}
	return fmt.Sprintf("(mkWMon %s [%s] %s)", cols, strings.Join(wh, "; "), selectTerm(m.Select))
}

func sinceTerm(s *val.Syms, m ovsdb.MonitorCondSinceReply) string {
	return fmt.Sprintf("(mkWSince %v %d%%N %s)", m.Found, s.ID(m.LastTransactionID), tu2Term(s, m.Updates))
}

func collectRowPtr(s *val.Syms, r *ovsdb.Row, us map[int]bool) {
	if r != nil {
		collectUUIDs(s, *r, us)
	}
}

// msgCase encodes the message, decodes the encoding, and prints the three as a
// case of Corr/C12.v; ok is false when the implementation fails on the way
// (the implementation-only oracle reports that).
func msgCase(s *val.Syms, v interface{}) (term string, js string, ok bool) {
	b, err := json.Marshal(v)
	if err != nil {
		return "", "", false
	}
	enc, err := toTree(v)
	if err != nil {
		return "", "", false
	}
	us := map[int]bool{}
	var vt, dt string
	switch m := v.(type) {
	case ovsdb.TableUpdates:
		var back ovsdb.TableUpdates
		if json.Unmarshal(b, &back) != nil {
			return "", "", false
		}
		for _, x := range []ovsdb.TableUpdates{m, back} {
			for _, t := range x {
				for _, ru := range t {
					if ru != nil {
						collectRowPtr(s, ru.New, us)
						collectRowPtr(s, ru.Old, us)
					}
				}
			}
		}
		vt, dt = "MRu "+tuTerm(s, m), "MRu "+tuTerm(s, back)
	case ovsdb.TableUpdates2:
		var back ovsdb.TableUpdates2
		if json.Unmarshal(b, &back) != nil {
			return "", "", false
		}
		collectTU2(s, m, us)
		collectTU2(s, back, us)
		vt, dt = "MRu2 "+tu2Term(s, m), "MRu2 "+tu2Term(s, back)
	case ovsdb.OperationResult:
		var back ovsdb.OperationResult
		if json.Unmarshal(b, &back) != nil {
			return "", "", false
		}
		for _, x := range []ovsdb.OperationResult{m, back} {
			collectUUIDs(s, x.UUID, us)
			for _, r := range x.Rows {
				collectUUIDs(s, r, us)
			}
		}
		vt, dt = "MRes "+resultTerm(s, m), "MRes "+resultTerm(s, back)
	case ovsdb.MonitorRequest:
		var back ovsdb.MonitorRequest
		if json.Unmarshal(b, &back) != nil {
			return "", "", false
		}
		for _, x := range []ovsdb.MonitorRequest{m, back} {
			for _, c := range x.Where {
				collectUUIDs(s, c.Value, us)
			}
		}
		vt, dt = "MMon "+monreqTerm(s, m), "MMon "+monreqTerm(s, back)
	case ovsdb.MonitorCondSinceReply:
		var back ovsdb.MonitorCondSinceReply
		if json.Unmarshal(b, &back) != nil {
			return "", "", false
		}
		collectTU2(s, m.Updates, us)
		collectTU2(s, back.Updates, us)
		vt, dt = "MSince "+sinceTerm(s, m), "MSince "+sinceTerm(s, back)
	default:
		return "", "", false
	}
	return fmt.Sprintf("CMsg (%s) (%s) (%s) %s", vt, gvalTerm(s, enc), dt, symSet(us)), string(b), true
}

func collectTU2(s *val.Syms, x ovsdb.TableUpdates2, us map[int]bool) {
	for _, t := range x {
		for _, ru := range t {
			if ru != nil {
				collectRowPtr(s, ru.Initial, us)
				collectRowPtr(s, ru.Insert, us)
				collectRowPtr(s, ru.Modify, us)
				collectRowPtr(s, ru.Delete, us)
			}
		}
	}
}

// ---------------------------------------------------------------------------
// generators with the shapes the plain round trip does not tell apart: nil
// row updates, rows that are present but empty (a deletion restates nothing),
// several members at once, empty and absent column lists, partial selects.

func (w *wgen) prow(pNil, pEmpty float64) *ovsdb.Row {
	switch {
	case w.g.Chance(pNil):
		return nil
	case w.g.Chance(pEmpty):
		r := ovsdb.Row{}
		return &r
	}
	r := w.row()
	return &r
}

func (w *wgen) msgUpdates() ovsdb.TableUpdates {
	tu := ovsdb.TableUpdates{}
	for i := w.g.Intn(3); i > 0; i-- {
		t := ovsdb.TableUpdate{}
		for j := w.g.Intn(3); j > 0; j-- {
			if w.g.Chance(0.1) {
				t[gen.UUIDn(w.g.Intn(5))] = nil
				continue
			}
			t[gen.UUIDn(w.g.Intn(5))] = &ovsdb.RowUpdate{New: w.prow(0.4, 0.2), Old: w.prow(0.4, 0.2)}
		}
		tu[fmt.Sprintf("T%d", i)] = t
	}
	return tu
}

func (w *wgen) msgUpdates2() ovsdb.TableUpdates2 {
	tu := ovsdb.TableUpdates2{}
	for i := w.g.Intn(3); i > 0; i-- {
		t := ovsdb.TableUpdate2{}
		for j := w.g.Intn(3); j > 0; j-- {
			if w.g.Chance(0.1) {
				t[gen.UUIDn(w.g.Intn(5))] = nil
				continue
			}
			t[gen.UUIDn(w.g.Intn(5))] = &ovsdb.RowUpdate2{Initial: w.prow(0.75, 0.2), Insert: w.prow(0.75, 0.2),
				Modify: w.prow(0.75, 0.2), Delete: w.prow(0.6, 0.6)}
		}
		tu[fmt.Sprintf("T%d", i)] = t
	}
	return tu
}

func (w *wgen) msgResult() ovsdb.OperationResult {
	r := ovsdb.OperationResult{}
	if w.g.Chance(0.4) {
		r.Count = w.g.Intn(5) - 1
	}
	if w.g.Chance(0.3) {
		r.Error = []string{"constraint violation", "referential integrity violation", "timed out"}[w.g.Intn(3)]
	}
	if w.g.Chance(0.3) {
		r.Details = []string{"x", "row 1", ""}[w.g.Intn(3)]
	}
	if w.g.Chance(0.5) {
		r.UUID = w.uuid()
	}
	if w.g.Chance(0.4) {
		r.Rows = []ovsdb.Row{}
		for i := w.g.Intn(3); i > 0; i-- {
			if w.g.Chance(0.2) {
				r.Rows = append(r.Rows, ovsdb.Row{})
			} else {
				r.Rows = append(r.Rows, w.row())
			}
		}
	}
	return r
}

func (w *wgen) msgMonitorRequest() ovsdb.MonitorRequest {
	r := ovsdb.MonitorRequest{}
	switch w.g.Intn(4) {
	case 0:
		r.Columns = []string{}
	case 1:
		r.Columns = []string{"c1"}
	case 2:
		r.Columns = []string{"c1", "c3", "_uuid"}
	}
	for i := w.g.Intn(3); i > 0; i-- {
		r.Where = append(r.Where, w.condition())
	}
	if w.g.Chance(0.7) {
		// a select with any subset of its members: through its own decoder
		m := map[string]bool{}
		for _, k := range []string{"initial", "insert", "delete", "modify"} {
			if w.g.Chance(0.5) {
				m[k] = w.g.Chance(0.5)
			}
		}
		b, _ := json.Marshal(m)
		sel := &ovsdb.MonitorSelect{}
		if json.Unmarshal(b, sel) == nil {
			r.Select = sel
		}
	}
	return r
}
