package main

// History for C16: the in-memory server never knows a last-transaction-id
// (it always answers monitor_cond_since with found=false and a full dump).
// In history mode the proxy plays a server that does: a shadow peer monitors
// every table with monitor_cond_since and so learns the id of every committed
// transaction (update3 carries it); the driver, which issues every transaction
// itself, one at a time, snapshots the database after each one. When the
// client re-establishes its monitor "since L", the server's full dump tells
// the current state; if it equals a snapshot (id cur) and L has a snapshot
// too, the reply becomes [true, cur, difference(snapshot L -> dump)]; the
// proxy may also "not know" L (as a cluster member with a shorter history
// would) and answer [false, cur, dump].

import (
	"encoding/json"
	"fmt"
	"sort"
	"sync"
	"time"

	"github.com/ovn-org/libovsdb/ovsdb"

	"verifharness/gen"
	"verifharness/val"
)

type dbSnap map[string]map[string]map[string]val.Val // table -> uuid -> row

type c16History struct {
	mu      sync.Mutex
	lab     *srvLab
	shadow  *peer
	g       *gen.G
	seen    int
	ids     []string
	snaps   map[string]dbSnap
	pForget float64
	counts  map[string]int
	notes   []string
}

const shadowCookie = `"shadow"`

func newC16History(lab *srvLab, g *gen.G) (*c16History, error) {
	p, err := lab.dial()
	if err != nil {
		return nil, err
	}
	reqs := map[string]interface{}{}
	for _, t := range lab.db.Spec.Tables {
		reqs[t.Name] = map[string]interface{}{}
	}
	var reply interface{}
	if err := p.c.Call("monitor_cond_since", []interface{}{lab.db.Spec.Name, json.RawMessage(shadowCookie), reqs, "00000000-0000-0000-0000-000000000000"}, &reply); err != nil {
		p.close()
		return nil, fmt.Errorf("shadow monitor: %v", err)
	}
	return &c16History{lab: lab, shadow: p, g: g, snaps: map[string]dbSnap{}, pForget: 0.25, counts: map[string]int{}}, nil
}

func (h *c16History) close() { h.shadow.close() }

// record is called by the driver after every transaction it issued: the ids the shadow received since the
// last call belong to that transaction (at most one: transactions are issued one at a time).
func (h *c16History) record() {
	// everything the server wrote to the shadow before now is consumed once an echo comes back
	var echo interface{}
	done := make(chan error, 1)
	go func() { done <- h.shadow.c.Call("echo", []interface{}{"sync"}, &echo) }()
	select {
	case <-done:
	case <-time.After(3 * time.Second):
		return
	}
	st, _, err := h.lab.state()
	if err != nil {
		return
	}
	h.shadow.mu.Lock()
	all := append([]string{}, h.shadow.ids[shadowCookie]...)
	h.shadow.mu.Unlock()
	h.mu.Lock()
	defer h.mu.Unlock()
	if len(all) > h.seen {
		newIDs := all[h.seen:]
		h.seen = len(all)
		h.ids = append(h.ids, newIDs...)
		// only the last one is known to denote the state read just now
		h.snaps[newIDs[len(newIDs)-1]] = dbSnap(st)
	}
}

func monitoredCols(h *c16History, requests json.RawMessage) map[string][]string {
	out := map[string][]string{}
	var byTable map[string]json.RawMessage
	if json.Unmarshal(requests, &byTable) != nil {
		return out
	}
	for t, raw := range byTable {
		spec := h.lab.db.Spec.Table(t)
		if spec == nil {
			continue
		}
		var reqs []struct {
			Columns *[]string `json:"columns"`
		}
		if json.Unmarshal(raw, &reqs) != nil {
			var one struct {
				Columns *[]string `json:"columns"`
			}
			if json.Unmarshal(raw, &one) != nil {
				continue
			}
			reqs = append(reqs, one)
		}
		var cols []string
		all := len(reqs) == 0
		for _, r := range reqs {
			if r.Columns == nil {
				all = true
			} else {
				cols = append(cols, *r.Columns...)
			}
		}
		if all {
			cols = nil
			for _, c := range spec.Cols {
				cols = append(cols, c.Name)
			}
		}
		sort.Strings(cols)
		out[t] = cols
	}
	return out
}

// onSince is the proxy's hook (see cutProxy.intercept).
func (h *c16History) onSince(cookie string, requests json.RawMessage, lastID string, result []json.RawMessage) []interface{} {
	h.mu.Lock()
	defer h.mu.Unlock()
	cols := monitoredCols(h, requests)
	var dump ovsdb.TableUpdates2
	if err := json.Unmarshal(result[2], &dump); err != nil {
		h.counts["since:undecodable dump"]++
		return nil
	}
	// the current contents of the monitored tables
	cur := dbSnap{}
	for t := range cols {
		cur[t] = map[string]map[string]val.Val{}
		spec := h.lab.db.Spec.Table(t)
		for u, ru := range dump[t] {
			src := ru.Initial
			if src == nil {
				src = ru.Insert
			}
			if src == nil {
				h.counts["since:unexpected dump row"]++
				return nil
			}
			row, err := h.lab.db.ReadOvsRow(t, *src)
			if err != nil {
				h.counts["since:undecodable dump"]++
				return nil
			}
			for _, c := range cols[t] {
				if _, ok := row[c]; !ok {
					row[c] = spec.Col(c).Default()
				}
			}
			cur[t][u] = row
		}
	}
	same := func(s dbSnap) bool {
		for t, cs := range cols {
			if len(s[t]) != len(cur[t]) {
				return false
			}
			for u, r := range cur[t] {
				sr, ok := s[t][u]
				if !ok {
					return false
				}
				for _, c := range cs {
					if !sr[c].Equal(r[c]) {
						return false
					}
				}
			}
		}
		return true
	}
	curID := ""
	for i := len(h.ids) - 1; i >= 0 && curID == ""; i-- {
		if s, ok := h.snaps[h.ids[i]]; ok && same(s) {
			curID = h.ids[i]
		}
	}
	if curID == "" {
		h.counts["since:current state has no known id (forwarded unchanged)"]++
		return nil
	}
	old, known := h.snaps[lastID]
	if !known {
		h.counts["since:not found (id unknown)"]++
		return []interface{}{false, curID, result[2]}
	}
	if h.g.Chance(h.pForget) {
		h.counts["since:not found (history forgotten)"]++
		return []interface{}{false, curID, result[2]}
	}
	// the difference between the state the client says it has and the current one
	delta := ovsdb.TableUpdates2{}
	changed := 0
	for t, cs := range cols {
		spec := h.lab.db.Spec.Table(t)
		tu := ovsdb.TableUpdate2{}
		for u, r := range cur[t] {
			or, ok := old[t][u]
			if !ok {
				vals := map[string]val.Val{}
				for _, c := range cs {
					vals[c] = r[c]
				}
				row := h.lab.db.OvsRow(t, vals)
				tu[u] = &ovsdb.RowUpdate2{Insert: &row}
				continue
			}
			diff := map[string]val.Val{}
			for _, c := range cs {
				if !or[c].Equal(r[c]) {
					diff[c] = valDiff(*spec.Col(c), or[c], r[c])
				}
			}
			if len(diff) > 0 {
				row := h.lab.db.OvsRow(t, diff)
				tu[u] = &ovsdb.RowUpdate2{Modify: &row}
			}
		}
		for u := range old[t] {
			if _, ok := cur[t][u]; !ok {
				tu[u] = &ovsdb.RowUpdate2{Delete: &ovsdb.Row{}}
			}
		}
		if len(tu) > 0 {
			delta[t] = tu
			changed += len(tu)
		}
	}
	if changed == 0 {
		h.counts["since:found, nothing changed"]++
	} else {
		h.counts["since:found, difference sent"]++
	}
	h.notes = append(h.notes, fmt.Sprintf("since %s -> found, now %s, %d rows differ", lastID, curID, changed))
	return []interface{}{true, curID, delta}
}

// valDiff is the update2 difference between two values of a column (ovsdb-server(7)): the elements to
// toggle for a set, the pairs to remove (old pair) or to set (new pair) for a map, the new value otherwise.
func valDiff(c val.Col, old, new val.Val) val.Val {
	switch c.K {
	case 's':
		in := map[string]bool{}
		for _, a := range new.Set {
			in[a.Key()] = true
		}
		was := map[string]bool{}
		out := val.Val{K: 's'}
		for _, a := range old.Set {
			was[a.Key()] = true
			if !in[a.Key()] {
				out.Set = append(out.Set, a)
			}
		}
		for _, a := range new.Set {
			if !was[a.Key()] {
				out.Set = append(out.Set, a)
			}
		}
		return out
	case 'm':
		nw := map[string][2]val.Atom{}
		for _, p := range new.Map {
			nw[p[0].Key()] = p
		}
		out := val.Val{K: 'm'}
		for _, p := range old.Map {
			if _, ok := nw[p[0].Key()]; !ok {
				out.Map = append(out.Map, p) // removed: the old pair
			}
		}
		od := map[string][2]val.Atom{}
		for _, p := range old.Map {
			od[p[0].Key()] = p
		}
		for _, p := range new.Map {
			if q, ok := od[p[0].Key()]; !ok || q[1].Key() != p[1].Key() {
				out.Map = append(out.Map, p) // added or changed: the new pair
			}
		}
		return out
	default:
		return new
	}
}
