package main

// C08, the database side of the first sentence: the operations of a transaction select the rows of a table through the
// same row cache, overlaid with the rows the transaction itself has changed. A row changed by an earlier operation must
// be judged by its new contents.

import (
	"fmt"
	"sort"
	"strings"

	"verifharness/dyn"
	"verifharness/emit"
	"verifharness/gen"
	"verifharness/val"
)

func c08DB(o opts, g *gen.G, w *emit.Writer, cols []val.Col) error {
	const T = "T"
	ncases := 60
	if o.tier == "thorough" {
		ncases = 1500
	}
	sc := dyn.Schema{Name: "C08db", Tables: []dyn.Table{{Name: T, Cols: cols, IsRoot: true}}}
	for ci := 0; ci < ncases; ci++ {
		lab, err := newTxnLab(sc)
		if err != nil {
			return err
		}
		pool := 3
		nrows := 2 + g.Intn(6)
		rows := map[string]map[string]val.Val{}
		var rowList []map[string]val.Val
		var uuids []string
		var ins []TOp
		for i := 0; i < nrows; i++ {
			u := gen.UUIDn(i)
			r := map[string]val.Val{}
			for _, c := range cols {
				r[c.Name] = g.Value(c, pool, 3)
			}
			rows[u], rowList, uuids = r, append(rowList, r), append(uuids, u)
			ins = append(ins, TOp{Kind: "insert", Table: T, UUID: u, Row: r})
		}
		if ob := lab.run(ins); !ob.Committed {
			return fmt.Errorf("c08 db: populate failed: %+v", ob.Results)
		}
		// a condition list, and an update that rewrites the columns it names
		var cs []Cond
		for j := 1 + g.Intn(2); j > 0; j-- {
			c := genCond(g, cols, rowList, uuids, pool, 3)
			if c.Col != "_uuid" {
				cs = append(cs, c)
			}
		}
		if len(cs) == 0 {
			continue
		}
		newVals := map[string]val.Val{}
		for _, c := range cs {
			newVals[c.Col] = g.Value(*colOf(cols, c.Col), pool+2, 3)
		}
		matching := func(state map[string]map[string]val.Val) []string {
			var us []string
			for _, u := range uuids {
				if r, ok := state[u]; ok && rfcMatch(u, r, cs) {
					us = append(us, u)
				}
			}
			sort.Strings(us)
			return us
		}
		first := matching(rows)
		after := map[string]map[string]val.Val{}
		for u, r := range rows {
			nr := map[string]val.Val{}
			for k, v := range r {
				nr[k] = v
			}
			after[u] = nr
		}
		for _, u := range first {
			for k, v := range newVals {
				after[u][k] = v
			}
		}
		second := matching(after)
		ops := []TOp{
			{Kind: "update", Table: T, Where: cs, Row: newVals},
			{Kind: "select", Table: T, Where: cs, Cols: []string{"name"}},
			{Kind: []string{"delete", "mutate"}[g.Intn(2)], Table: T, Where: cs, Muts: []Mut{{Col: "n", Mutator: "+=", Arg: val.VA(val.Int(1))}}},
		}
		ob := lab.run(ops)
		oracle := ""
		fail := func(format string, a ...interface{}) {
			if oracle == "" {
				oracle = fmt.Sprintf("conditions %v, update of the named columns, then the same conditions: ", jsonConds(cs)) + fmt.Sprintf(format, a...)
			}
		}
		if len(ob.Results) < 3 {
			fail("only %d results", len(ob.Results))
		} else {
			if ob.Results[0].Kind != "count" || ob.Results[0].Count != len(first) {
				fail("the update reports %+v, %d rows satisfy the conditions", ob.Results[0], len(first))
			}
			if ob.Results[1].Kind == "rows" {
				var got []string
				for u := range ob.Results[1].Rows {
					got = append(got, u)
				}
				sort.Strings(got)
				if strings.Join(got, ",") != strings.Join(second, ",") {
					fail("the select after the update returns {%s} but exactly {%s} satisfy every condition now", strings.Join(got, ","), strings.Join(second, ","))
				}
			} else {
				fail("the select gives %+v", ob.Results[1])
			}
			if ob.Results[2].Kind != "count" || ob.Results[2].Count != len(second) {
				fail("the %s after the update affects %+v rows, %d satisfy every condition now", ops[2].Kind, ob.Results[2], len(second))
			}
		}
		w.Count("db-overlay")
		w.Add(emit.Case{Term: "C08.CQuery (C08.mk [] [] [])", JSON: map[string]interface{}{"database_overlay": true, "conditions": jsonConds(cs), "rows": len(uuids),
			"matching_before": first, "matching_after_update": second}, Key: fmt.Sprintf("db%d", ci),
			Nontrivial: len(first) > 0 && len(second) < len(first), Class: "db-overlay", Oracle: oracle})
	}
	return nil
}
