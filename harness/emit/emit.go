// Package emit writes correspondence cases as Gallina files (sharded) with a
// JSON twin, and the run statistics that end up in the evidence file.
package emit

import (
	"crypto/sha256"
	"encoding/json"
	"fmt"
	"os"
	"path/filepath"
	"sort"
	"strings"
)

type Case struct {
	Term       string      // Gallina term of the case record
	JSON       interface{} // human-readable twin
	Key        string      // canonical input (distinctness)
	Nontrivial bool
	Class      string // distribution bucket
	Oracle     string // "" or a description of a direct property-oracle failure
}

type Writer struct {
	Prop      string // e.g. "C10"
	Module    string // e.g. "Corr.C10"
	CaseType  string // e.g. "C10.case"
	Run       string // e.g. "C10.run"
	Prelude   string // extra vernacular (e.g. schema definitions)
	ShardSize int
	Dir       string
	cases     []Case
	Dist      map[string]int
	Extra     map[string]interface{}
}

func New(prop, dir string) *Writer {
	return &Writer{Prop: prop, Module: "Corr." + prop, CaseType: prop + ".case", Run: prop + ".run",
		ShardSize: 500, Dir: dir, Dist: map[string]int{}, Extra: map[string]interface{}{}}
}

func (w *Writer) Add(c Case) {
	w.cases = append(w.cases, c)
	if c.Class != "" {
		w.Dist[c.Class]++
	}
}

func (w *Writer) Count(bucket string) { w.Dist[bucket]++ }
func (w *Writer) Len() int            { return len(w.cases) }

type Stats struct {
	Property     string                 `json:"property"`
	Evaluations  int                    `json:"evaluations"`
	Distinct     int                    `json:"distinct"`
	DistinctNT   int                    `json:"distinct_nontrivial"`
	Distribution map[string]int         `json:"distribution"`
	Samples      []interface{}          `json:"samples"`
	Shards       []string               `json:"shards"`
	ShardSize    int                    `json:"shard_size"`
	OracleFails  []OracleFail           `json:"oracle_failures"`
	Extra        map[string]interface{} `json:"extra,omitempty"`
}

type OracleFail struct {
	Index int         `json:"index"`
	What  string      `json:"what"`
	Case  interface{} `json:"case"`
}

// Flush writes cases_<prop>_<k>.v, cases_<prop>.json and stats_<prop>.json.
func (w *Writer) Flush() error {
	if err := os.MkdirAll(w.Dir, 0o755); err != nil {
		return err
	}
	old, _ := filepath.Glob(filepath.Join(w.Dir, "cases_"+w.Prop+"_*"))
	for _, f := range old {
		os.Remove(f)
	}
	st := Stats{Property: w.Prop, Evaluations: len(w.cases), Distribution: w.Dist, ShardSize: w.ShardSize, Extra: w.Extra}
	seen := map[[32]byte]bool{}
	seenNT := map[[32]byte]bool{}
	var twins []interface{}
	for i, c := range w.cases {
		h := sha256.Sum256([]byte(c.Key))
		seen[h] = true
		if c.Nontrivial {
			seenNT[h] = true
		}
		twins = append(twins, c.JSON)
		if c.Oracle != "" && len(st.OracleFails) < 20 {
			st.OracleFails = append(st.OracleFails, OracleFail{Index: i, What: c.Oracle, Case: c.JSON})
		}
	}
	st.Distinct = len(seen)
	st.DistinctNT = len(seenNT)
	// samples: first non-trivial, middle, last
	var nt []int
	for i, c := range w.cases {
		if c.Nontrivial {
			nt = append(nt, i)
		}
	}
	pick := []int{}
	if len(nt) > 0 {
		pick = append(pick, nt[0], nt[len(nt)/2], nt[len(nt)-1])
	} else if len(w.cases) > 0 {
		pick = append(pick, 0)
	}
	sort.Ints(pick)
	last := -1
	for _, i := range pick {
		if i != last {
			st.Samples = append(st.Samples, w.cases[i].JSON)
		}
		last = i
	}
	for k := 0; k*w.ShardSize < len(w.cases); k++ {
		lo, hi := k*w.ShardSize, (k+1)*w.ShardSize
		if hi > len(w.cases) {
			hi = len(w.cases)
		}
		name := fmt.Sprintf("cases_%s_%d.v", w.Prop, k)
		var sb strings.Builder
		sb.WriteString("From LOV Require Import Base.Atoms " + w.Module + ".\n")
		sb.WriteString("From Coq Require Import List ZArith NArith.\nImport ListNotations.\n")
		sb.WriteString("Open Scope Z_scope.\n")
		sb.WriteString(w.Prelude)
		sb.WriteString("Definition cases : list " + w.CaseType + " := [\n")
		for i := lo; i < hi; i++ {
			sb.WriteString("  " + w.cases[i].Term)
			if i+1 < hi {
				sb.WriteString(";")
			}
			sb.WriteString("\n")
		}
		sb.WriteString("].\n")
		sb.WriteString("Definition VERDICT := Eval vm_compute in " + w.Run + " cases.\nPrint VERDICT.\n")
		if err := os.WriteFile(filepath.Join(w.Dir, name), []byte(sb.String()), 0o644); err != nil {
			return err
		}
		st.Shards = append(st.Shards, name)
	}
	b, _ := json.Marshal(twins)
	if err := os.WriteFile(filepath.Join(w.Dir, "cases_"+w.Prop+".json"), b, 0o644); err != nil {
		return err
	}
	b, _ = json.MarshalIndent(st, "", " ")
	return os.WriteFile(filepath.Join(w.Dir, "stats_"+w.Prop+".json"), b, 0o644)
}

func Bool(b bool) string {
	if b {
		return "true"
	}
	return "false"
}

func List(items []string) string { return "[" + strings.Join(items, "; ") + "]" }

// PatchStats updates the "extra" section of an already written stats file.
func PatchStats(dir, prop string, f func(extra map[string]interface{})) error {
	path := filepath.Join(dir, "stats_"+prop+".json")
	b, err := os.ReadFile(path)
	if err != nil {
		return err
	}
	var st map[string]interface{}
	if err := json.Unmarshal(b, &st); err != nil {
		return err
	}
	extra, _ := st["extra"].(map[string]interface{})
	if extra == nil {
		extra = map[string]interface{}{}
	}
	f(extra)
	st["extra"] = extra
	b, _ = json.MarshalIndent(st, "", " ")
	return os.WriteFile(path, b, 0o644)
}
