// Package dyn builds, for a harness-level schema description, the real
// ovsdb.DatabaseSchema and run-time struct models (reflect.StructOf), so every
// driver is generic in the schema.
package dyn

import (
	"encoding/json"
	"fmt"
	"reflect"
	"sort"
	"strings"

	"github.com/ovn-org/libovsdb/model"
	"github.com/ovn-org/libovsdb/ovsdb"

	"verifharness/val"
)

type Table struct {
	Name    string
	Cols    []val.Col
	Indexes [][]string
	IsRoot  bool
}

type Schema struct {
	Name   string
	Tables []Table
}

func (t Table) Col(name string) *val.Col {
	for i := range t.Cols {
		if t.Cols[i].Name == name {
			return &t.Cols[i]
		}
	}
	return nil
}

func (s Schema) Table(name string) *Table {
	for i := range s.Tables {
		if s.Tables[i].Name == name {
			return &s.Tables[i]
		}
	}
	return nil
}

func (s Schema) JSON() string {
	var tabs []string
	for _, t := range s.Tables {
		var cols []string
		for _, c := range t.Cols {
			cols = append(cols, fmt.Sprintf("%q:%s", c.Name, c.SchemaJSON()))
		}
		ts := "{\"columns\":{" + strings.Join(cols, ",") + "}"
		if len(t.Indexes) > 0 {
			b, _ := json.Marshal(t.Indexes)
			ts += ",\"indexes\":" + string(b)
		}
		if t.IsRoot {
			ts += ",\"isRoot\":true"
		}
		ts += "}"
		tabs = append(tabs, fmt.Sprintf("%q:%s", t.Name, ts))
	}
	return fmt.Sprintf("{\"name\":%q,\"version\":\"1.0.0\",\"tables\":{%s}}", s.Name, strings.Join(tabs, ","))
}

// DB bundles everything the real code needs for a schema.
type DB struct {
	Spec   Schema
	Schema ovsdb.DatabaseSchema
	Client model.ClientDBModel
	Model  model.DatabaseModel
	types  map[string]reflect.Type // pointer-to-struct types
	field  map[string]map[string]int
}

// Build parses the schema with the real decoder and builds struct models.
func (s Schema) Build() (*DB, error) {
	return s.BuildWithIndexes(nil)
}

func (s Schema) BuildWithIndexes(clientIdx map[string][]model.ClientIndex) (*DB, error) {
	return s.build(clientIdx, nil)
}

// BuildHiding builds models that have no field for the named columns (table -> column -> true): a client model covering
// a subset of the schema. Spec then lists the visible columns only; the schema stays complete.
func (s Schema) BuildHiding(hide map[string]map[string]bool) (*DB, error) {
	return s.build(nil, hide)
}

func (s Schema) build(clientIdx map[string][]model.ClientIndex, hide map[string]map[string]bool) (*DB, error) {
	var schema ovsdb.DatabaseSchema
	if err := json.Unmarshal([]byte(s.JSON()), &schema); err != nil {
		return nil, fmt.Errorf("schema: %v (%s)", err, s.JSON())
	}
	if hide != nil {
		vis := Schema{Name: s.Name}
		for _, t := range s.Tables {
			vt := t
			vt.Cols = nil
			for _, c := range t.Cols {
				if !hide[t.Name][c.Name] {
					vt.Cols = append(vt.Cols, c)
				}
			}
			vis.Tables = append(vis.Tables, vt)
		}
		s = vis
	}
	db := &DB{Spec: s, Schema: schema, types: map[string]reflect.Type{}, field: map[string]map[string]int{}}
	models := map[string]model.Model{}
	for ti, t := range s.Tables {
		// field names carry the table index: identical field lists would
		// otherwise give identical reflect types for different tables
		fields := []reflect.StructField{{
			Name: "UUID", Type: reflect.TypeOf(""), Tag: reflect.StructTag(`ovsdb:"_uuid" json:"_uuid"`),
		}}
		idx := map[string]int{"_uuid": 0}
		for i, c := range t.Cols {
			fields = append(fields, reflect.StructField{
				Name: fmt.Sprintf("T%dF%d", ti, i),
				Type: c.NativeType(),
				Tag:  reflect.StructTag(fmt.Sprintf(`ovsdb:"%s" json:"%s"`, c.Name, c.Name)),
			})
			idx[c.Name] = i + 1
		}
		st := reflect.StructOf(fields)
		db.types[t.Name] = reflect.PtrTo(st)
		db.field[t.Name] = idx
		models[t.Name] = reflect.New(st).Interface()
	}
	cl, err := model.NewClientDBModel(s.Name, models)
	if err != nil {
		return nil, err
	}
	if clientIdx != nil {
		cl.SetIndexes(clientIdx)
	}
	dm, errs := model.NewDatabaseModel(schema, cl)
	if len(errs) > 0 {
		return nil, fmt.Errorf("dbmodel: %v", errs)
	}
	db.Client = cl
	db.Model = dm
	return db, nil
}

func (d *DB) New(table string) model.Model {
	return reflect.New(d.types[table].Elem()).Interface()
}

// TableOf finds the table a model belongs to.
func (d *DB) TableOf(m model.Model) string {
	t := reflect.TypeOf(m)
	for name, ty := range d.types {
		if ty == t {
			return name
		}
	}
	return ""
}

func (d *DB) UUID(m model.Model) string {
	return reflect.ValueOf(m).Elem().Field(0).String()
}

func (d *DB) SetUUID(m model.Model, u string) {
	reflect.ValueOf(m).Elem().Field(0).SetString(u)
}

func (d *DB) Get(m model.Model, table, col string) val.Val {
	c := d.Spec.Table(table).Col(col)
	f := reflect.ValueOf(m).Elem().Field(d.field[table][col])
	return c.FromNative(f.Interface())
}

func (d *DB) Set(m model.Model, table, col string, v val.Val) {
	c := d.Spec.Table(table).Col(col)
	f := reflect.ValueOf(m).Elem().Field(d.field[table][col])
	f.Set(reflect.ValueOf(c.ToNative(v)))
}

// FieldPtr returns a pointer to the field holding col (for the conditional API).
func (d *DB) FieldPtr(m model.Model, table, col string) interface{} {
	return reflect.ValueOf(m).Elem().Field(d.field[table][col]).Addr().Interface()
}

// Row reads all columns of a model, in schema order.
func (d *DB) Row(m model.Model, table string) []val.Val {
	t := d.Spec.Table(table)
	out := make([]val.Val, len(t.Cols))
	for i, c := range t.Cols {
		out[i] = d.Get(m, table, c.Name)
	}
	return out
}

// Make builds a model from column values (missing columns stay zero).
func (d *DB) Make(table, uuid string, vals map[string]val.Val) model.Model {
	m := d.New(table)
	d.SetUUID(m, uuid)
	for k, v := range vals {
		d.Set(m, table, k, v)
	}
	return m
}

// OvsRow builds an ovsdb.Row holding exactly the given columns.
func (d *DB) OvsRow(table string, vals map[string]val.Val) ovsdb.Row {
	r := ovsdb.Row{}
	t := d.Spec.Table(table)
	for k, v := range vals {
		r[k] = t.Col(k).ToOvs(v)
	}
	return r
}

// ReadOvsRow converts an ovsdb.Row into harness values; columns not in the
// row are absent from the result.
func (d *DB) ReadOvsRow(table string, r ovsdb.Row) (map[string]val.Val, error) {
	t := d.Spec.Table(table)
	out := map[string]val.Val{}
	for k, x := range r {
		if k == "_uuid" {
			continue
		}
		c := t.Col(k)
		if c == nil {
			return nil, fmt.Errorf("unknown column %s", k)
		}
		v, err := c.FromOvs(x)
		if err != nil {
			return nil, fmt.Errorf("column %s: %v", k, err)
		}
		out[k] = v
	}
	return out, nil
}

func SortedKeys(m map[string]val.Val) []string {
	ks := make([]string, 0, len(m))
	for k := range m {
		ks = append(ks, k)
	}
	sort.Strings(ks)
	return ks
}

// ---------------------------------------------------------------------------
// Gallina printing of schemas and rows

func coqAType(t byte) string {
	switch t {
	case 'i':
		return "TInt"
	case 'r':
		return "TReal"
	case 'b':
		return "TBool"
	case 's':
		return "TStr"
	default:
		return "TUuid"
	}
}

func coqBase(s *val.Syms, t byte, enum []val.Atom, refT, refTy string) string {
	ref := "None"
	if refT != "" {
		rt := "Strong"
		if refTy == "weak" {
			rt = "Weak"
		}
		ref = fmt.Sprintf("(Some (%d%%N, %s))", s.ID(refT), rt)
	}
	return fmt.Sprintf("(mkBase %s %s %s)", coqAType(t), s.AtomList(enum), ref)
}

// CoqCol prints a [column] term.
func CoqCol(s *val.Syms, c val.Col) string {
	kind := map[byte]string{'a': "KAtom", 'o': "KOpt", 's': "KSet", 'm': "KMap"}[c.K]
	vt := "None"
	if c.K == 'm' {
		vt = "(Some " + coqBase(s, c.VT, nil, c.VRefTable, c.VRefType) + ")"
	}
	min, max := c.Min, "None"
	switch c.K {
	case 'a':
		min, max = 1, "(Some 1%nat)"
	case 'o':
		min, max = 0, "(Some 1%nat)"
	default:
		if c.Max >= 0 {
			max = fmt.Sprintf("(Some %d%%nat)", c.Max)
		}
	}
	return fmt.Sprintf("mkCol %d%%N (mkColTy %s %s %s %d%%nat %s) %v",
		s.ID(c.Name), kind, coqBase(s, c.KT, c.Enum, c.RefTable, c.RefType), vt, min, max, !c.Immutable)
}

// CoqColTy prints the [colty] term of a column.
func CoqColTy(s *val.Syms, c val.Col) string {
	t := CoqCol(s, c)
	i := strings.Index(t, "(mkColTy")
	j := strings.LastIndex(t, ")")
	return t[i : j+1]
}

// CoqTable prints a [table] term.
func CoqTable(s *val.Syms, t Table) string {
	var cols []string
	for _, c := range t.Cols {
		cols = append(cols, CoqCol(s, c))
	}
	var idx []string
	for _, ix := range t.Indexes {
		var cs []string
		for _, c := range ix {
			cs = append(cs, fmt.Sprintf("%d%%N", s.ID(c)))
		}
		idx = append(idx, "["+strings.Join(cs, "; ")+"]")
	}
	return fmt.Sprintf("mkTable %d%%N [%s] [%s] %v", s.ID(t.Name), strings.Join(cols, ";\n    "), strings.Join(idx, "; "), t.IsRoot)
}

// CoqSchema prints a [schema] term.
func CoqSchema(s *val.Syms, sc Schema) string {
	var ts []string
	for _, t := range sc.Tables {
		ts = append(ts, "("+CoqTable(s, t)+")")
	}
	return "mkSchema [" + strings.Join(ts, ";\n  ") + "]"
}

// CoqRow prints [(col, lvalue); ...] (to be wrapped by mkrow) in sorted column order.
func CoqRow(s *val.Syms, vals map[string]val.Val) string {
	var parts []string
	for _, k := range SortedKeys(vals) {
		parts = append(parts, fmt.Sprintf("(%d%%N, %s)", s.ID(k), s.LVal(vals[k])))
	}
	return "[" + strings.Join(parts, "; ") + "]"
}

func CoqOptRow(s *val.Syms, vals map[string]val.Val, present bool) string {
	if !present {
		return "None"
	}
	return "(Some " + CoqRow(s, vals) + ")"
}

// RowMap reads all columns of a model into a map.
func (d *DB) RowMap(m model.Model, table string) map[string]val.Val {
	t := d.Spec.Table(table)
	out := map[string]val.Val{}
	for _, c := range t.Cols {
		out[c.Name] = d.Get(m, table, c.Name)
	}
	return out
}

func JSONRow(vals map[string]val.Val) map[string]interface{} {
	out := map[string]interface{}{}
	for k, v := range vals {
		out[k] = v.JSONable()
	}
	return out
}

// CheckAgainst builds struct models from the column types of [fields] and
// validates them against the schema [sc] (same table and column names):
// nil when model.NewDatabaseModel accepts them.
func CheckAgainst(sc, fields Schema) error {
	var schema ovsdb.DatabaseSchema
	if err := json.Unmarshal([]byte(sc.JSON()), &schema); err != nil {
		return nil
	}
	models := map[string]model.Model{}
	for ti, t := range fields.Tables {
		fs := []reflect.StructField{{Name: "UUID", Type: reflect.TypeOf(""), Tag: reflect.StructTag(`ovsdb:"_uuid"`)}}
		for i, c := range t.Cols {
			fs = append(fs, reflect.StructField{Name: fmt.Sprintf("T%dF%d", ti, i), Type: c.NativeType(),
				Tag: reflect.StructTag(fmt.Sprintf(`ovsdb:"%s"`, c.Name))})
		}
		models[t.Name] = reflect.New(reflect.StructOf(fs)).Interface()
	}
	cl, err := model.NewClientDBModel(sc.Name, models)
	if err != nil {
		return err
	}
	_, errs := model.NewDatabaseModel(schema, cl)
	if len(errs) > 0 {
		return errs[0]
	}
	return nil
}
