#!/bin/sh
# Offline build of the framework from files on disk only.
set -e
cd "$(dirname "$0")"
export GOFLAGS=-mod=mod GOPROXY=off GOSUMDB=off GOTOOLCHAIN=local
(cd coq && coq_makefile -f _CoqProject -o Makefile >/dev/null && timeout 3400 make -j${VERIF_JOBS:-12})
mkdir -p .work/bin
cp /repo/go.sum harness/go.sum 2>/dev/null || true
(cd harness && go build -tags verif -o ../.work/bin/drive ./cmd/drive)
echo setup done
